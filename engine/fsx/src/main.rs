// fsx — ptrace controller for real cacache processes at the file-system system-call seam.
//
//   fsx <spec.json>      run ONE execution described by the spec, print a JSON report on stdout
//
// The explorer (Python) enumerates schedules / crash points / faults and calls fsx once per execution
// from a fresh copy of the scenario's initial cache. x86-64 Linux only.
//
// spec:
//   roots:   [abs paths]  syscalls whose path / descriptor lies under one of these are *steps*
//   actors:  [{argv:[..], cwd:".."}]   one traced process per entry (process actors), or
//   threads: {argv:[..], cwd:"..", n:N}  one traced process whose threads announce themselves with
//            begin markers FSX:begin:<i> (thread actors)
//   schedule: [actor, actor, ...]      choice at each decision point; afterwards the default policy
//            (keep running the current actor if it is enabled, else the lowest enabled id)
//   crash:   {step:k, tear:t|null}     kill the actor group at the entry of global step k (0-based);
//            with tear: rewrite the length of that write to t, let it execute, kill at its exit
//   faults:  [{step:i, errno:e} | {step:i, short:t} | {step:i, short:t, then_errno:e}]
//   monitor: bool   record every path/descriptor call of the fs family, also outside the roots
//   timeout_ms
//
// exit status: 0 = report printed (whatever the actors did), 2 = tracer failure.

use serde_json::{json, Value};
use std::collections::{HashMap, VecDeque};
use std::ffi::CString;
use std::os::unix::io::RawFd;

const PTRACE_GET_SYSCALL_INFO: libc::c_uint = 0x420e;
const OP_ENTRY: u8 = 1;
const OP_EXIT: u8 = 2;

#[repr(C)]
#[derive(Clone, Copy)]
struct SyscallInfo {
    op: u8,
    pad: [u8; 3],
    arch: u32,
    ip: u64,
    sp: u64,
    // entry: nr, args[6]; exit: rval, is_error
    data: [u64; 7],
}

#[derive(Clone, Copy, PartialEq)]
enum Kind {
    Path,     // path argument(s)
    Fd,       // descriptor argument
}

struct Sys {
    name: &'static str,
    kind: Kind,
    // for Path: (dirfd arg index or -1, path arg index); second path for rename/link family
    p1: (i32, i32),
    p2: (i32, i32),
    fd: i32,
    len_arg: i32,
    flags_arg: i32,
}

fn sys_table(nr: u64) -> Option<Sys> {
    let p = |name, d1, a1| Sys { name, kind: Kind::Path, p1: (d1, a1), p2: (-2, -1), fd: -1, len_arg: -1, flags_arg: -1 };
    let p2 = |name, d1, a1, d2, a2| Sys { name, kind: Kind::Path, p1: (d1, a1), p2: (d2, a2), fd: -1, len_arg: -1, flags_arg: -1 };
    let f = |name, len_arg| Sys { name, kind: Kind::Fd, p1: (-2, -1), p2: (-2, -1), fd: 0, len_arg, flags_arg: -1 };
    Some(match nr {
        2 => Sys { flags_arg: 1, ..p("open", -1, 0) },
        257 => Sys { flags_arg: 2, ..p("openat", 0, 1) },
        437 => p("openat2", 0, 1),
        85 => p("creat", -1, 0),
        83 => p("mkdir", -1, 0),
        258 => p("mkdirat", 0, 1),
        82 => p2("rename", -1, 0, -1, 1),
        264 => p2("renameat", 0, 1, 2, 3),
        316 => p2("renameat2", 0, 1, 2, 3),
        87 => p("unlink", -1, 0),
        263 => Sys { flags_arg: 2, ..p("unlinkat", 0, 1) },
        84 => p("rmdir", -1, 0),
        86 => p2("link", -1, 0, -1, 1),
        265 => p2("linkat", 0, 1, 2, 3),
        88 => p("symlink", -1, 1),
        266 => p("symlinkat", 1, 2),
        4 => p("stat", -1, 0),
        6 => p("lstat", -1, 0),
        262 => Sys { flags_arg: 3, ..p("newfstatat", 0, 1) },
        332 => Sys { flags_arg: 2, ..p("statx", 0, 1) },
        21 => p("access", -1, 0),
        269 => p("faccessat", 0, 1),
        439 => p("faccessat2", 0, 1),
        89 => p("readlink", -1, 0),
        267 => p("readlinkat", 0, 1),
        76 => p("truncate", -1, 0),
        90 => p("chmod", -1, 0),
        268 => p("fchmodat", 0, 1),
        92 => p("chown", -1, 0),
        260 => p("fchownat", 0, 1),
        280 => p("utimensat", 0, 1),
        133 => p("mknod", -1, 0),
        259 => p("mknodat", 0, 1),
        0 => f("read", 2),
        1 => f("write", 2),
        17 => f("pread64", 2),
        18 => f("pwrite64", 2),
        19 => f("readv", -1),
        20 => f("writev", -1),
        217 => f("getdents64", -1),
        285 => f("fallocate", -1),
        77 => f("ftruncate", -1),
        74 => f("fsync", -1),
        75 => f("fdatasync", -1),
        91 => f("fchmod", -1),
        326 => Sys { fd: 2, ..f("copy_file_range", 4) },
        40 => f("sendfile", 3),
        9 => Sys { fd: 4, ..f("mmap", 1) },
        16 => f("ioctl", -1),
        _ => return None,
    })
}

#[derive(Clone)]
struct Step {
    actor: usize,
    tid: i32,
    nr: u64,
    name: String,
    paths: Vec<String>,
    fd_path: Option<String>,
    fd: i64,
    len: i64,
    flags: i64,
    in_root: bool,
}

struct Thread {
    actor: Option<usize>,
    tgid: i32,
    in_syscall: bool,
    held: bool,          // stopped at the entry of a step, not resumed yet
    cur: Option<Step>,   // step being executed (between entry and exit)
    pending_ret: Option<i64>, // value to force into rax at exit (fault injection)
    kill_at_exit: bool,
}

struct Actor {
    pid: i32,
    begun: bool,
    ended: bool,
    exited: bool,
    exit_status: Value,
    out_fd: RawFd,
    queue: VecDeque<i32>, // tids held at a step, arrival order
    steps_done: usize,
    short_fd_fail: HashMap<i64, i64>, // fd -> errno for the next write on it
}

struct Ctl {
    roots: Vec<String>,
    threads: HashMap<i32, Thread>,
    actors: Vec<Actor>,
    thread_mode: bool,
    monitor: bool,
    log: Vec<Value>,      // executed steps (and monitored calls)
    decisions: Vec<Value>,
    markers: Vec<Value>,
    nsteps: usize,
    crash: Option<(usize, Option<i64>)>,
    faults: Vec<Value>,
    crashed: bool,
    deadline: std::time::Instant,
    // hold rules for the in-flight abandonment scenario (one process, main thread vs. blocking-pool thread)
    hold: String,            // "" | "bg-write-until-M2" | "M1-until-bg-idle"
    seen_m2: bool,
    parked: Option<i32>,     // main thread stopped at the M1 marker, to be resumed when the pool thread is idle
    bg_tid: Option<i32>,     // thread that executed the first temp-file write
    bg_idle: bool,
}

fn errno() -> i32 {
    unsafe { *libc::__errno_location() }
}

fn ptrace(req: libc::c_uint, pid: i32, addr: usize, data: usize) -> i64 {
    unsafe { libc::ptrace(req, pid, addr as *mut libc::c_void, data as *mut libc::c_void) }
}

fn read_mem(pid: i32, addr: u64, len: usize) -> Option<Vec<u8>> {
    let mut buf = vec![0u8; len];
    let local = libc::iovec { iov_base: buf.as_mut_ptr() as *mut libc::c_void, iov_len: len };
    let remote = libc::iovec { iov_base: addr as *mut libc::c_void, iov_len: len };
    let n = unsafe { libc::process_vm_readv(pid, &local, 1, &remote, 1, 0) };
    if n <= 0 {
        return None;
    }
    buf.truncate(n as usize);
    Some(buf)
}

fn read_cstr(pid: i32, addr: u64) -> Option<String> {
    if addr == 0 {
        return None;
    }
    let mut out = Vec::new();
    let mut a = addr;
    loop {
        // read up to the end of the page to avoid faulting across unmapped pages
        let chunk = 4096 - (a as usize % 4096);
        let b = read_mem(pid, a, chunk)?;
        if let Some(i) = b.iter().position(|&c| c == 0) {
            out.extend_from_slice(&b[..i]);
            break;
        }
        out.extend_from_slice(&b);
        a += b.len() as u64;
        if out.len() > 1 << 20 {
            return None;
        }
    }
    Some(String::from_utf8_lossy(&out).into_owned())
}

fn normalize(path: &str) -> String {
    let mut parts: Vec<&str> = Vec::new();
    for c in path.split('/') {
        match c {
            "" | "." => {}
            ".." => {
                parts.pop();
            }
            x => parts.push(x),
        }
    }
    format!("/{}", parts.join("/"))
}

fn readlink(p: &str) -> Option<String> {
    std::fs::read_link(p).ok().map(|x| x.to_string_lossy().into_owned())
}

fn resolve(tid: i32, dirfd: Option<i64>, path: &str) -> String {
    if path.starts_with('/') {
        return normalize(path);
    }
    let base = match dirfd {
        Some(fd) if fd as i32 != libc::AT_FDCWD => readlink(&format!("/proc/{tid}/fd/{fd}")).unwrap_or_else(|| "/?".into()),
        _ => readlink(&format!("/proc/{tid}/cwd")).unwrap_or_else(|| "/?".into()),
    };
    let base = base.trim_end_matches(" (deleted)").to_string();
    if path.is_empty() {
        return normalize(&base);
    }
    normalize(&format!("{base}/{path}"))
}

impl Ctl {
    fn in_root(&self, p: &str) -> bool {
        self.roots.iter().any(|r| p == r || p.starts_with(&format!("{r}/")))
    }

    fn describe(&self, tid: i32, actor: usize, nr: u64, args: &[u64; 6]) -> Option<Step> {
        let s = sys_table(nr)?;
        let mut paths = Vec::new();
        let mut fd_path = None;
        let mut fdv: i64 = -1;
        let mut len: i64 = -1;
        let mut flags: i64 = -1;
        match s.kind {
            Kind::Path => {
                for (d, a) in [s.p1, s.p2] {
                    if a < 0 {
                        continue;
                    }
                    let raw = read_cstr(tid, args[a as usize]).unwrap_or_default();
                    let dirfd = if d >= 0 { Some(args[d as usize] as i32 as i64) } else { None };
                    if raw.is_empty() && dirfd.is_some() && nr != 258 {
                        // AT_EMPTY_PATH on a descriptor (fstat-like): not a path operation
                        if nr == 332 || nr == 262 {
                            return None;
                        }
                    }
                    paths.push(resolve(tid, dirfd, &raw));
                }
                if s.flags_arg >= 0 {
                    flags = args[s.flags_arg as usize] as i64;
                }
                if nr == 88 || nr == 266 {
                    // symlink(target, linkpath): the created object is the link path; keep the target text too
                    let target = read_cstr(tid, args[0]).unwrap_or_default();
                    fd_path = Some(target);
                }
            }
            Kind::Fd => {
                fdv = args[s.fd as usize] as i32 as i64;
                if fdv < 0 {
                    return None;
                }
                if nr == 9 {
                    // mmap: only file-backed shared mappings matter
                    let fl = args[3];
                    if fl & 0x20 != 0 {
                        return None; // MAP_ANONYMOUS
                    }
                    flags = ((args[2] as i64) << 32) | fl as i64; // prot<<32 | flags
                }
                if nr == 16 {
                    let req = args[1];
                    // FICLONE 0x40049409, FICLONERANGE 0x4020940d
                    if req != 0x40049409 && req != 0x4020940d {
                        return None;
                    }
                }
                let l = readlink(&format!("/proc/{tid}/fd/{fdv}"))?;
                if !l.starts_with('/') {
                    return None; // pipe, socket, anon inode
                }
                fd_path = Some(normalize(l.trim_end_matches(" (deleted)")));
                if s.len_arg >= 0 {
                    len = args[s.len_arg as usize] as i64;
                }
            }
        }
        let in_root = paths.iter().any(|p| self.in_root(p)) || (s.kind == Kind::Fd && fd_path.as_ref().map(|p| self.in_root(p)).unwrap_or(false));
        Some(Step { actor, tid, nr, name: s.name.to_string(), paths, fd_path, fd: fdv, len, flags, in_root })
    }

    fn step_json(&self, st: &Step, ret: Option<i64>, idx: Option<usize>, note: &str) -> Value {
        json!({"actor": st.actor, "sys": st.name, "paths": st.paths, "fd_path": st.fd_path, "len": st.len, "flags": st.flags,
               "in_root": st.in_root, "ret": ret, "step": idx, "note": note})
    }
}

fn die(msg: &str) -> ! {
    println!("{}", json!({"status": "tracer-error", "error": msg}));
    std::process::exit(2);
}

fn spawn(argv: &[String], cwd: Option<&str>) -> (i32, RawFd) {
    let mut fds = [0i32; 2];
    if unsafe { libc::pipe(fds.as_mut_ptr()) } != 0 {
        die("pipe failed");
    }
    unsafe { libc::fcntl(fds[1], 1031 /* F_SETPIPE_SZ */, 1 << 20) };
    let cargs: Vec<CString> = argv.iter().map(|a| CString::new(a.as_str()).unwrap()).collect();
    let mut ptrs: Vec<*const libc::c_char> = cargs.iter().map(|c| c.as_ptr()).collect();
    ptrs.push(std::ptr::null());
    let ccwd = cwd.map(|c| CString::new(c).unwrap());
    let pid = unsafe { libc::fork() };
    if pid < 0 {
        die("fork failed");
    }
    if pid == 0 {
        unsafe {
            libc::close(fds[0]);
            libc::dup2(fds[1], 1);
            libc::close(fds[1]);
            let devnull = libc::open(b"/dev/null\0".as_ptr() as *const libc::c_char, libc::O_RDWR);
            libc::dup2(devnull, 0);
            if std::env::var_os("FSX_STDERR").is_none() {
                libc::dup2(devnull, 2);
            }
            if let Some(c) = &ccwd {
                libc::chdir(c.as_ptr());
            }
            libc::ptrace(libc::PTRACE_TRACEME, 0, 0, 0);
            libc::raise(libc::SIGSTOP);
            libc::execv(ptrs[0], ptrs.as_ptr());
            libc::_exit(127);
        }
    }
    unsafe { libc::close(fds[1]) };
    let mut status = 0;
    let r = unsafe { libc::waitpid(pid, &mut status, libc::__WALL) };
    if r != pid || !libc::WIFSTOPPED(status) {
        die("child did not stop");
    }
    let opts = libc::PTRACE_O_TRACESYSGOOD | libc::PTRACE_O_TRACECLONE | libc::PTRACE_O_TRACEFORK | libc::PTRACE_O_TRACEVFORK
        | libc::PTRACE_O_TRACEEXEC | libc::PTRACE_O_EXITKILL;
    if ptrace(libc::PTRACE_SETOPTIONS, pid, 0, opts as usize) != 0 {
        die("PTRACE_SETOPTIONS failed");
    }
    (pid, fds[0])
}

fn tgid_of(tid: i32) -> i32 {
    if let Ok(s) = std::fs::read_to_string(format!("/proc/{tid}/status")) {
        for l in s.lines() {
            if let Some(v) = l.strip_prefix("Tgid:") {
                return v.trim().parse().unwrap_or(tid);
            }
        }
    }
    tid
}

fn read_all(fd: RawFd) -> String {
    let mut out = Vec::new();
    let mut buf = [0u8; 65536];
    loop {
        let n = unsafe { libc::read(fd, buf.as_mut_ptr() as *mut libc::c_void, buf.len()) };
        if n <= 0 {
            break;
        }
        out.extend_from_slice(&buf[..n as usize]);
    }
    String::from_utf8_lossy(&out).into_owned()
}

enum Ev {
    /// a thread is now held at the entry of a step
    Held(i32),
    /// a step finished (syscall exit processed)
    StepDone(i32),
    Other,
    /// no tracees left
    NoChildren,
    Timeout,
}

impl Ctl {
    fn resume(&self, tid: i32, sig: i32) {
        ptrace(libc::PTRACE_SYSCALL, tid, 0, sig as usize);
    }

    fn kill_all(&mut self) {
        for a in &self.actors {
            unsafe { libc::kill(a.pid, libc::SIGKILL) };
        }
        self.crashed = true;
    }

    /// Wait for and process one ptrace event.
    fn pump(&mut self) -> Ev {
        let mut status = 0;
        let left = self.deadline.saturating_duration_since(std::time::Instant::now());
        if left.is_zero() {
            return Ev::Timeout;
        }
        // arm a one-shot timer so that a hung tracee cannot block us forever
        let secs = left.as_secs().max(1) as u32;
        unsafe { libc::alarm(secs + 1) };
        let tid = unsafe { libc::waitpid(-1, &mut status, libc::__WALL) };
        unsafe { libc::alarm(0) };
        if tid < 0 {
            if errno() == libc::ECHILD {
                return Ev::NoChildren;
            }
            if errno() == libc::EINTR {
                return Ev::Timeout;
            }
            die("waitpid failed");
        }
        if !self.threads.contains_key(&tid) {
            let tg = tgid_of(tid);
            let actor = if self.thread_mode { None } else { self.actors.iter().position(|a| a.pid == tg) };
            self.threads.insert(tid, Thread { actor, tgid: tg, in_syscall: false, held: false, cur: None, pending_ret: None, kill_at_exit: false });
        }
        if libc::WIFEXITED(status) || libc::WIFSIGNALED(status) {
            let th = self.threads.remove(&tid).unwrap();
            for a in self.actors.iter_mut() {
                if a.pid == tid {
                    a.exited = true;
                    a.exit_status = if libc::WIFEXITED(status) { json!({"code": libc::WEXITSTATUS(status)}) } else { json!({"signal": libc::WTERMSIG(status)}) };
                }
                a.queue.retain(|t| *t != tid);
            }
            let _ = th;
            return Ev::Other;
        }
        if !libc::WIFSTOPPED(status) {
            return Ev::Other;
        }
        let sig = libc::WSTOPSIG(status);
        let event = (status >> 16) & 0xffff;
        if sig == (libc::SIGTRAP | 0x80) {
            return self.on_syscall(tid);
        }
        if sig == libc::SIGTRAP && event != 0 {
            // clone/fork/exec event stop
            self.resume(tid, 0);
            return Ev::Other;
        }
        if sig == libc::SIGSTOP {
            // initial stop of an auto-attached thread (or a stray stop): swallow
            self.resume(tid, 0);
            return Ev::Other;
        }
        // genuine signal: deliver it
        self.resume(tid, sig);
        Ev::Other
    }

    fn on_syscall(&mut self, tid: i32) -> Ev {
        let mut info = SyscallInfo { op: 0, pad: [0; 3], arch: 0, ip: 0, sp: 0, data: [0; 7] };
        let r = ptrace(PTRACE_GET_SYSCALL_INFO, tid, std::mem::size_of::<SyscallInfo>(), &mut info as *mut _ as usize);
        if r < 0 {
            // thread vanished (killed)
            return Ev::Other;
        }
        if info.op == OP_ENTRY {
            let nr = info.data[0];
            let args: [u64; 6] = [info.data[1], info.data[2], info.data[3], info.data[4], info.data[5], info.data[6]];
            self.threads.get_mut(&tid).unwrap().in_syscall = true;
            // markers: write(-1, "FSX:...", n)
            if nr == 1 && args[0] as i32 == -1 && args[2] < 256 {
                if let Some(b) = read_mem(tid, args[1], args[2] as usize) {
                    let s = String::from_utf8_lossy(&b).into_owned();
                    if let Some(m) = s.strip_prefix("FSX:") {
                        self.on_marker(tid, m);
                        if m == "M2" {
                            self.seen_m2 = true;
                        }
                        if m == "M1" && self.hold == "M1-until-bg-idle" && !self.bg_idle {
                            // keep the dropping thread here until the blocking task has completed and its
                            // pool thread went back to waiting
                            self.parked = Some(tid);
                            return Ev::Other;
                        }
                    }
                }
                self.resume(tid, 0);
                return Ev::Other;
            }
            if nr == 202 && Some(tid) == self.bg_tid && !self.bg_idle {
                let op = args[1] & 0x7f;
                if op == 0 || op == 9 {
                    self.bg_idle = true;
                    if let Some(p) = self.parked.take() {
                        self.resume(p, 0);
                    }
                }
            }
            let actor = self.threads[&tid].actor;
            let active = actor.map(|a| self.actors[a].begun && !self.actors[a].ended).unwrap_or(false);
            if !active {
                self.resume(tid, 0);
                return Ev::Other;
            }
            let a = actor.unwrap();
            match self.describe(tid, a, nr, &args) {
                Some(st) if st.in_root => {
                    let th = self.threads.get_mut(&tid).unwrap();
                    th.held = true;
                    th.cur = Some(st);
                    self.actors[a].queue.push_back(tid);
                    Ev::Held(tid)
                }
                Some(st) => {
                    if self.monitor {
                        let th = self.threads.get_mut(&tid).unwrap();
                        th.cur = Some(st);
                    }
                    self.resume(tid, 0);
                    Ev::Other
                }
                None => {
                    self.resume(tid, 0);
                    Ev::Other
                }
            }
        } else if info.op == OP_EXIT {
            let rval = info.data[0] as i64;
            let (cur, forced, kill) = {
                let th = self.threads.get_mut(&tid).unwrap();
                th.in_syscall = false;
                (th.cur.take(), th.pending_ret.take(), std::mem::replace(&mut th.kill_at_exit, false))
            };
            let mut ret = rval;
            if let Some(f) = forced {
                let mut regs: libc::user_regs_struct = unsafe { std::mem::zeroed() };
                ptrace(libc::PTRACE_GETREGS, tid, 0, &mut regs as *mut _ as usize);
                regs.rax = f as u64;
                ptrace(libc::PTRACE_SETREGS, tid, 0, &regs as *const _ as usize);
                ret = f;
            }
            if let Some(st) = cur {
                if st.in_root {
                    if self.bg_tid.is_none() && (st.name == "write" || st.name == "pwrite64") && st.fd_path.as_deref().map(|p| p.contains("/tmp/.tmp")).unwrap_or(false) {
                        self.bg_tid = Some(tid);
                    }
                    let idx = self.nsteps;
                    self.nsteps += 1;
                    self.actors[st.actor].steps_done += 1;
                    let note = if kill { "torn-then-killed" } else if forced.is_some() { "fault-injected" } else { "" };
                    let j = self.step_json(&st, Some(ret), Some(idx), note);
                    self.log.push(j);
                    if kill {
                        self.kill_all();
                        return Ev::StepDone(tid);
                    }
                    self.resume(tid, 0);
                    return Ev::StepDone(tid);
                } else if self.monitor {
                    let j = self.step_json(&st, Some(ret), None, "");
                    self.log.push(j);
                }
            }
            self.resume(tid, 0);
            Ev::Other
        } else {
            self.resume(tid, 0);
            Ev::Other
        }
    }

    fn on_marker(&mut self, tid: i32, m: &str) {
        let parts: Vec<&str> = m.split(':').collect();
        self.markers.push(json!({"marker": m, "after_steps": self.nsteps}));
        match parts[0] {
            "begin" => {
                if self.thread_mode {
                    if let Some(i) = parts.get(1).and_then(|x| x.parse::<usize>().ok()) {
                        if i < self.actors.len() {
                            self.threads.get_mut(&tid).unwrap().actor = Some(i);
                            self.actors[i].begun = true;
                        }
                    }
                } else if let Some(a) = self.threads[&tid].actor {
                    self.actors[a].begun = true;
                }
            }
            "end" => {
                if let Some(a) = self.threads[&tid].actor {
                    self.actors[a].ended = true;
                }
            }
            _ => {}
        }
    }

    fn actor_live(&self, a: usize) -> bool {
        let ac = &self.actors[a];
        if self.thread_mode {
            !ac.ended && !self.actors[0].exited
        } else {
            !ac.ended && !ac.exited
        }
    }

    /// Run until every live actor is held at a step (or finished). Returns false on timeout.
    fn settle(&mut self) -> bool {
        loop {
            let waiting = (0..self.actors.len()).any(|a| self.actor_live(a) && self.actors[a].queue.is_empty());
            if !waiting {
                return true;
            }
            match self.pump() {
                Ev::Timeout => return false,
                Ev::NoChildren => return true,
                _ => {}
            }
            if self.crashed {
                return true;
            }
        }
    }

    /// Release the first held thread of actor a and wait until that step's syscall has exited.
    fn release(&mut self, a: usize) -> bool {
        let tid = match self.actors[a].queue.pop_front() {
            Some(t) => t,
            None => return true,
        };
        let idx = self.nsteps;
        // crash / fault hooks at the entry of global step idx
        let st = self.threads[&tid].cur.clone().unwrap();
        if let Some((k, tear)) = self.crash {
            if k == idx {
                match tear {
                    None => {
                        let j = self.step_json(&st, None, Some(idx), "killed-at-entry");
                        self.log.push(j);
                        self.nsteps += 1;
                        self.kill_all();
                        return true;
                    }
                    Some(t) => {
                        self.set_len(tid, &st, t);
                        self.threads.get_mut(&tid).unwrap().kill_at_exit = true;
                    }
                }
            }
        }
        let mut inject: Option<i64> = None;
        let mut short: Option<i64> = None;
        let mut then_errno: Option<i64> = None;
        for f in &self.faults {
            if f["step"].as_u64() == Some(idx as u64) {
                if let Some(e) = f["errno"].as_i64() {
                    inject = Some(e);
                }
                if let Some(t) = f["short"].as_i64() {
                    short = Some(t);
                }
                if let Some(e) = f["then_errno"].as_i64() {
                    then_errno = Some(e);
                }
            }
        }
        if inject.is_none() && (st.name == "write" || st.name == "pwrite64") {
            if let Some(e) = self.actors[a].short_fd_fail.remove(&st.fd) {
                inject = Some(e);
            }
        }
        if let Some(e) = inject {
            // suppress the syscall and make it return -errno
            let mut regs: libc::user_regs_struct = unsafe { std::mem::zeroed() };
            ptrace(libc::PTRACE_GETREGS, tid, 0, &mut regs as *mut _ as usize);
            regs.orig_rax = u64::MAX;
            ptrace(libc::PTRACE_SETREGS, tid, 0, &regs as *const _ as usize);
            self.threads.get_mut(&tid).unwrap().pending_ret = Some(-e);
        } else if let Some(t) = short {
            self.set_len(tid, &st, t);
            if let Some(e) = then_errno {
                self.actors[a].short_fd_fail.insert(st.fd, e);
            }
        }
        {
            let th = self.threads.get_mut(&tid).unwrap();
            th.held = false;
        }
        self.resume(tid, 0);
        loop {
            match self.pump() {
                Ev::StepDone(t) if t == tid => return true,
                Ev::Timeout => return false,
                Ev::NoChildren => return true,
                _ => {
                    if !self.threads.contains_key(&tid) {
                        return true; // thread died inside the call (killed)
                    }
                }
            }
        }
    }

    fn set_len(&mut self, tid: i32, st: &Step, t: i64) {
        let mut regs: libc::user_regs_struct = unsafe { std::mem::zeroed() };
        ptrace(libc::PTRACE_GETREGS, tid, 0, &mut regs as *mut _ as usize);
        // read/write/pread64/pwrite64: length is the third argument (rdx)
        if matches!(st.name.as_str(), "read" | "write" | "pread64" | "pwrite64") {
            // a legal short answer is SHORTER than what was asked for; the step an index points at may be a
            // different (smaller) request than in the probe run once an earlier answer was shortened
            if t >= 0 && (t as u64) < regs.rdx {
                regs.rdx = t as u64;
                ptrace(libc::PTRACE_SETREGS, tid, 0, &regs as *const _ as usize);
            }
        }
    }
}

extern "C" fn on_alarm(_: i32) {}

fn main() {
    let args: Vec<String> = std::env::args().collect();
    if args.len() < 2 {
        eprintln!("usage: fsx <spec.json>");
        std::process::exit(2);
    }
    let spec: Value = serde_json::from_str(&std::fs::read_to_string(&args[1]).unwrap_or_else(|_| die("cannot read spec"))).unwrap_or_else(|_| die("bad spec json"));
    unsafe {
        let mut sa: libc::sigaction = std::mem::zeroed();
        sa.sa_sigaction = on_alarm as usize;
        sa.sa_flags = 0; // no SA_RESTART: waitpid must return EINTR
        libc::sigaction(libc::SIGALRM, &sa, std::ptr::null_mut());
    }
    let roots: Vec<String> = spec["roots"].as_array().map(|a| a.iter().filter_map(|x| x.as_str().map(normalize)).collect()).unwrap_or_default();
    let timeout = spec["timeout_ms"].as_u64().unwrap_or(10000);
    let mut ctl = Ctl {
        roots,
        threads: HashMap::new(),
        actors: Vec::new(),
        thread_mode: false,
        monitor: spec["monitor"].as_bool().unwrap_or(false),
        log: Vec::new(),
        decisions: Vec::new(),
        markers: Vec::new(),
        nsteps: 0,
        crash: spec.get("crash").filter(|c| c.is_object()).map(|c| (c["step"].as_u64().unwrap_or(0) as usize, c["tear"].as_i64())),
        faults: spec["faults"].as_array().cloned().unwrap_or_default(),
        crashed: false,
        deadline: std::time::Instant::now() + std::time::Duration::from_millis(timeout),
        hold: spec["hold"].as_str().unwrap_or("").to_string(),
        seen_m2: false,
        parked: None,
        bg_tid: None,
        bg_idle: false,
    };
    let strs = |v: &Value| -> Vec<String> { v.as_array().map(|a| a.iter().filter_map(|x| x.as_str().map(String::from)).collect()).unwrap_or_default() };
    if let Some(t) = spec.get("threads").filter(|t| t.is_object()) {
        ctl.thread_mode = true;
        let n = t["n"].as_u64().unwrap_or(2) as usize;
        let (pid, fd) = spawn(&strs(&t["argv"]), t["cwd"].as_str());
        for i in 0..n {
            ctl.actors.push(Actor { pid: if i == 0 { pid } else { -1 - i as i32 }, begun: false, ended: false, exited: false, exit_status: Value::Null,
                                    out_fd: if i == 0 { fd } else { -1 }, queue: VecDeque::new(), steps_done: 0, short_fd_fail: HashMap::new() });
        }
        ctl.threads.insert(pid, Thread { actor: None, tgid: pid, in_syscall: false, held: false, cur: None, pending_ret: None, kill_at_exit: false });
        ctl.resume(pid, 0);
    } else {
        for a in spec["actors"].as_array().cloned().unwrap_or_default() {
            let (pid, fd) = spawn(&strs(&a["argv"]), a["cwd"].as_str());
            let idx = ctl.actors.len();
            ctl.actors.push(Actor { pid, begun: false, ended: false, exited: false, exit_status: Value::Null, out_fd: fd, queue: VecDeque::new(),
                                    steps_done: 0, short_fd_fail: HashMap::new() });
            ctl.threads.insert(pid, Thread { actor: Some(idx), tgid: pid, in_syscall: false, held: false, cur: None, pending_ret: None, kill_at_exit: false });
            ctl.resume(pid, 0);
        }
    }
    let schedule: Vec<usize> = spec["schedule"].as_array().map(|a| a.iter().filter_map(|x| x.as_u64().map(|v| v as usize)).collect()).unwrap_or_default();
    let mut status = "ok".to_string();
    let mut error = Value::Null;
    let mut running: Option<usize> = None;
    let mut di = 0usize;
    loop {
        if !ctl.settle() {
            status = "timeout".into();
            break;
        }
        if ctl.crashed {
            break;
        }
        let enabled: Vec<usize> = (0..ctl.actors.len()).filter(|&a| !ctl.actors[a].queue.is_empty()).collect();
        if enabled.is_empty() {
            break;
        }
        let choice = if di < schedule.len() {
            let c = schedule[di];
            if !enabled.contains(&c) {
                status = "schedule-divergence".into();
                error = json!({"decision": di, "wanted": c, "enabled": enabled});
                break;
            }
            c
        } else {
            match running {
                Some(r) if enabled.contains(&r) => r,
                _ => enabled[0],
            }
        };
        let st = ctl.threads[ctl.actors[choice].queue.front().unwrap()].cur.clone().unwrap();
        if ctl.hold == "bg-write-until-M2" && !ctl.seen_m2 && (st.name == "write" || st.name == "pwrite64")
            && st.fd_path.as_deref().map(|p| p.contains("/tmp/.tmp")).unwrap_or(false)
        {
            // the blocking task's write stays held while the other thread drops the writer
            let mut ok = true;
            while !ctl.seen_m2 {
                match ctl.pump() {
                    Ev::Timeout | Ev::NoChildren => {
                        ok = false;
                        break;
                    }
                    _ => {}
                }
            }
            if !ok {
                status = "timeout".into();
                error = json!("hold rule bg-write-until-M2: marker M2 never came");
                break;
            }
        }
        ctl.decisions.push(json!({"enabled": enabled, "chosen": choice, "running": running, "sys": st.name,
                                  "path": st.paths.first().cloned().or(st.fd_path.clone()),
                                  "paths": st.paths.clone(), "fd_path": st.fd_path.clone(), "flags": st.flags}));
        di += 1;
        running = Some(choice);
        if !ctl.release(choice) {
            status = "timeout".into();
            break;
        }
        if ctl.crashed {
            break;
        }
    }
    // let everything run to completion (or die)
    if status != "ok" || ctl.crashed {
        for a in &ctl.actors {
            if a.pid > 0 {
                unsafe { libc::kill(a.pid, libc::SIGKILL) };
            }
        }
    }
    // detach held threads if any remain (divergence): they were killed above
    let drain_deadline = std::time::Instant::now() + std::time::Duration::from_millis(if ctl.crashed { 15000 } else { 5000 });
    let was_crashed = ctl.crashed;
    ctl.deadline = drain_deadline;
    loop {
        match ctl.pump() {
            Ev::NoChildren => break,
            Ev::Timeout => {
                for a in &ctl.actors {
                    if a.pid > 0 {
                        unsafe { libc::kill(a.pid, libc::SIGKILL) };
                    }
                }
                ctl.deadline = std::time::Instant::now() + std::time::Duration::from_millis(5000);
                // slow reaping of a group we killed ourselves is not a verdict about the actors
                if status == "ok" && !was_crashed {
                    status = "timeout".into();
                }
            }
            Ev::Held(tid) => {
                // a step after all actors ended cannot happen; a held thread here belongs to a killed group
                let th = ctl.threads.get_mut(&tid);
                if let Some(th) = th {
                    th.held = false;
                }
                ctl.resume(tid, 0);
            }
            _ => {}
        }
    }
    let actors: Vec<Value> = ctl
        .actors
        .iter()
        .map(|a| {
            let out = if a.out_fd >= 0 { read_all(a.out_fd) } else { String::new() };
            json!({"exit": a.exit_status, "stdout": out, "begun": a.begun, "ended": a.ended, "steps": a.steps_done})
        })
        .collect();
    println!("{}", json!({"status": status, "error": error, "crashed": ctl.crashed, "nsteps": ctl.nsteps, "steps": ctl.log, "decisions": ctl.decisions,
                          "markers": ctl.markers, "actors": actors}));
}
