fn main(){}
