"""C12 — sync, async-std and tokio flavours of the API are observationally equivalent.

Differential lock-step exploration (seqx x3): the same program is executed on three caches by three opserver
builds (S: the _sync calls, A: async calls on async-std, T: async calls on tokio); after EVERY step the three
replies (success/error classification, data, metadata) and the three decoded directory trees are compared — the
other flavours are the oracle, no model is needed. Programs: every program up to the length bound over an
alphabet of writes (sessions with options, chunked, one-shot, by address, rejected), reads, streamed reads,
extractions, removals, remove_fully, clear, listing, link_to, and damage steps (content bit flip / truncation,
invalid-UTF-8 line and torn record in a bucket, bucket replaced by a directory). Explored as a tree with
de-duplication on the triple of canonical states. Mixed-flavour form: one shared cache, step i executed by
flavour phi(i), for ALL phi in {S,A,T}^len, compared with the pure-S run of the same program.
"""
import itertools
import os
import time

from vlib import fsutil, ref, run, tables, wr
from vlib.run import V, classify

PROP = "C12"
FLAVS = [("sync", "s"), ("astd", "a"), ("tok", "a")]
D1 = {"n": 6, "tag": 141}
D2 = {"n": 21, "tag": 142}
K, K2, K3 = "k-main", "k-oneshot", "k-linked"

ACTIONS = ["W1", "W2", "W3", "WH", "WBAD", "WBADI", "WMULTI", "WOTHER", "WHDEC", "W0", "WOVF", "WOVFK", "R", "RH", "ST", "STPART", "M", "L", "E", "CP", "CPU", "HL", "HLDHL", "RM", "RMH", "RF", "CL", "LK", "LKDEL", "DFLIP", "DTRUNC", "DUTF8", "DTORN", "DSHORT", "DBADSRI", "DDIR"]
DAMAGE = {"DFLIP", "DTRUNC", "DUTF8", "DTORN", "DSHORT", "DBADSRI", "DDIR"}
MIXED = ["W1", "W2", "WH", "R", "M", "L", "RM", "RF", "DUTF8", "ST", "W3", "W0"]


def sri(v):
    return ref.sri("sha256", ref.gen(v["n"], v["tag"]))


def norm_err(e):
    return {"variant": e.get("variant"), "io_kind": e.get("io_kind") if e.get("variant") in ("IoError", "StdIo") else None}


def norm_meta(m, window):
    if m is None:
        return None
    t = int(m["time"])
    return (m["key"], m["integrity"], "NOW" if window[0] <= t <= window[1] else t, m["size"], repr(m["metadata"]), m["raw_metadata"])


def norm_reply(rep, window):
    if "err" in rep:
        return ("err", repr(norm_err(rep["err"])))
    if "ok" not in rep or rep.get("panics"):
        return ("abnormal", classify(rep))
    v = rep["ok"]
    if isinstance(v, dict) and "sha256" in v:
        return ("data", v["len"], v["sha256"])
    if isinstance(v, dict) and "data" in v:
        return ("stream", v["data"]["len"], v["data"]["sha256"])
    if isinstance(v, dict) and "key" in v and "integrity" in v:
        return ("meta", norm_meta(v, window))
    if isinstance(v, list):
        items = []
        for i in v:
            items.append(("ok", norm_meta(i["ok"], window)) if "ok" in i else ("err", repr(norm_err(i["err"]))))
        return ("list", tuple(sorted(items, key=repr)))
    return ("value", repr(v))


def do_action(srv, side, cache, aux, act):
    """Execute one action in one flavour. Returns the list of replies that are compared."""
    s = side == "s"
    suf = "_sync" if s else ""
    out = []
    if act == "W1":
        rep, _ = wr.do_write(srv, cache, side=side, entry="open", key=K, algo="sha256", n=D1["n"], tag=D1["tag"], opts={"time": "5", "metadata": {"a": [1, "é"]}, "raw_metadata": "00ff"})
        return [rep]
    if act == "W2":
        rep, _ = wr.do_write(srv, cache, side=side, entry="open", key=K, algo="sha512", n=D2["n"], tag=D2["tag"], chunks=[1, 20], opts={"time": str(2 ** 64 + 6), "size": D2["n"]})
        return [rep]
    if act == "W3":
        rep, _ = wr.do_write(srv, cache, side=side, entry="oneshot", key=K2, n=D1["n"], tag=D1["tag"])
        return [rep]
    if act == "WH":
        rep, _ = wr.do_write(srv, cache, side=side, entry="hash", n=D2["n"], tag=D2["tag"])
        return [rep]
    if act == "WBAD":
        rep, _ = wr.do_write(srv, cache, side=side, entry="open", key=K, n=D1["n"], tag=D1["tag"], chunks=[2, 4], opts={"size": D1["n"] + 2, "time": "7"})
        return [rep]
    if act == "WBADI":
        rep, _ = wr.do_write(srv, cache, side=side, entry="open_hash", n=D1["n"], tag=D1["tag"], opts={"integrity": sri(D2), "size": D1["n"]})
        return [rep]
    if act == "WMULTI":
        # a correct multi-hash integrity that contains the writer's algorithm
        d = ref.gen(D1["n"], D1["tag"])
        multi = ref.sri("sha1", d) + " " + ref.sri("sha256", d)
        rep, _ = wr.do_write(srv, cache, side=side, entry="open", key=K, algo="sha256", n=D1["n"], tag=D1["tag"], opts={"time": "8", "integrity": multi})
        return [rep]
    if act == "WHDEC":
        # by-address writer, declared size (memory-mapped path), decreasing chunk lengths
        rep, _ = wr.do_write(srv, cache, side=side, entry="open_hash", algo="sha1", n=10, tag=143, chunks=[4, 3, 3], opts={"size": 10})
        return [rep, srv.call({"op": "read_hash" + suf, "cache": cache, "sri": ref.sri("sha1", ref.gen(10, 143))})]
    if act == "W0":
        # the empty value, keyed, over whatever the key holds
        rep, _ = wr.do_write(srv, cache, side=side, entry="oneshot", key=K, n=0, tag=0)
        return [rep, srv.call({"op": "read" + suf, "cache": cache, "key": K})]
    if act == "WOVF":
        # by-address writer (memory-mapped where the flavour maps) that overflows its declared size in a LATER chunk, with the
        # bytes of D1: the rejected commit must leave a stored copy of D1 as it was, in every flavour alike
        rep, _ = wr.do_write(srv, cache, side=side, entry="open_hash", algo="sha256", n=D1["n"], tag=D1["tag"], chunks=[4, 2], opts={"size": 5})
        return [rep, srv.call({"op": "read_hash" + suf, "cache": cache, "sri": sri(D1)})]
    if act == "WOVFK":
        # the same through the KEYED writer (the sync flavour maps its temp file for a declared size, the async ones do not)
        rep, _ = wr.do_write(srv, cache, side=side, entry="open", key=K2, algo="sha256", n=D1["n"], tag=D1["tag"], chunks=[4, 2], opts={"size": 5, "time": "11"})
        return [rep, srv.call({"op": "read_hash" + suf, "cache": cache, "sri": sri(D1)}), srv.call({"op": "metadata" + suf, "cache": cache, "key": K2})]
    if act == "WOTHER":
        # a declared integrity under another algorithm than the writer's (correct digest of the data)
        rep, _ = wr.do_write(srv, cache, side=side, entry="open", key=K, algo="sha256", n=D1["n"], tag=D1["tag"], opts={"time": "9", "integrity": ref.sri("sha512", ref.gen(D1["n"], D1["tag"]))})
        return [rep]
    if act == "R":
        return [srv.call({"op": "read" + suf, "cache": cache, "key": K})]
    if act == "RH":
        return [srv.call({"op": "read_hash" + suf, "cache": cache, "sri": sri(D1)})]
    if act == "ST":
        rep, d = wr.do_read(srv, cache, "stream" + suf, key=K, buf=4)
        return [rep]
    if act == "STPART":
        # a streaming reader whose final check is called after only a prefix (here: 2 bytes, then nothing) has been read
        out_ = []
        for nread in (2, 0):
            ro = srv.call({"op": ("sr_" if s else "ar_") + "open", "cache": cache, "key": K})
            if "ok" not in ro:
                out_.append(ro)
                continue
            h_ = ro["ok"]["h"]
            if nread:
                srv.call({"op": "r_read", "h": h_, "n": nread})
            out_.append(srv.call({"op": "r_check", "h": h_}))
        return out_
    if act == "M":
        return [srv.call({"op": "metadata" + suf, "cache": cache, "key": K}), srv.call({"op": "index_find" if s else "index_find_async", "cache": cache, "key": K2})]
    if act == "L":
        return [srv.call({"op": "list_sync", "cache": cache})]
    if act == "E":
        return [srv.call({"op": "exists" + suf, "cache": cache, "sri": sri(D1)}), srv.call({"op": "exists" + suf, "cache": cache, "sri": sri(D2)})]
    dest = os.path.join(aux, "dest")
    if act in ("CP", "CPU", "HL"):
        fsutil.wipe(dest)
        op = {"CP": "copy", "CPU": "copy_unchecked", "HL": "hard_link"}[act] + suf
        rep = srv.call({"op": op, "cache": cache, "key": K, "to": dest})
        b = None
        try:
            with open(dest, "rb") as fh:
                b = fh.read()
        except OSError:
            pass
        return [rep, {"ok": {"len": -1 if b is None else len(b), "sha256": "" if b is None else ref.sha256hex(b)}}]
    if act == "HLDHL":
        # checked hard link, the content damaged IN PLACE (same inode, so the destination shares the damage), linked again
        fsutil.wipe(dest)
        r1 = srv.call({"op": "hard_link" + suf, "cache": cache, "key": K, "to": dest})
        cpath = os.path.join(cache, ref.content_rel(sri(D1)))
        if os.path.isfile(cpath) and not os.path.islink(cpath):
            with open(cpath, "r+b") as fh:
                b = fh.read(1)
                if b:
                    fh.seek(0)
                    fh.write(bytes([b[0] ^ 0x01]))
        r2 = srv.call({"op": "hard_link" + suf, "cache": cache, "key": K, "to": dest})
        fsutil.wipe(dest)
        return [r1, r2]
    if act == "RM":
        return [srv.call({"op": "remove" + suf, "cache": cache, "key": K})]
    if act == "RMH":
        return [srv.call({"op": "remove_hash" + suf, "cache": cache, "sri": sri(D1)})]
    if act == "RF":
        return [srv.call({"op": "remove_opts" + suf, "cache": cache, "key": K, "fully": True})]
    if act == "CL":
        return [srv.call({"op": "clear" + suf, "cache": cache})]
    if act == "LK":
        return [srv.call({"op": "link_to" + suf, "cache": cache, "key": K3, "target": os.path.join(aux, "target")})]
    if act == "LKDEL":
        # link a file of its own (bytes nobody else stores), delete that file: the content address now holds a dangling link
        t3 = os.path.join(aux, "target-to-delete")
        d3 = ref.gen(7, 144)
        with open(t3, "wb") as fh:
            fh.write(d3)
        r1 = srv.call({"op": "link_to" + suf, "cache": cache, "key": K3, "target": t3})
        os.unlink(t3)
        s3 = ref.sri("sha256", d3)
        return [r1, srv.call({"op": "exists" + suf, "cache": cache, "sri": s3}), srv.call({"op": "read_hash" + suf, "cache": cache, "sri": s3}),
                srv.call({"op": "metadata" + suf, "cache": cache, "key": K3})]
    # ---- damage steps (performed by the driver, identical on the three caches)
    cp = os.path.join(cache, ref.content_rel(sri(D1)))
    bp = os.path.join(cache, ref.bucket_rel(K))
    if act == "DFLIP":
        if os.path.isfile(cp) and not os.path.islink(cp):
            with open(cp, "r+b") as fh:
                b = fh.read(1)
                fh.seek(0)
                fh.write(bytes([b[0] ^ 0x40]))
        return []
    if act == "DTRUNC":
        if os.path.isfile(cp) and not os.path.islink(cp):
            with open(cp, "r+b") as fh:
                fh.truncate(D1["n"] - 1)
        return []
    if act == "DBADSRI":
        # a checksum-valid record for K whose integrity cannot name a content file, after whatever is there
        if os.path.isfile(bp):
            with open(bp, "ab") as fh:
                fh.write(ref.encode_record({"key": K, "integrity": "sha256-AA==", "time": 10, "size": 1, "metadata": None, "raw_metadata": None}))
        return []
    if act in ("DUTF8", "DTORN", "DSHORT"):
        if os.path.isfile(bp):
            with open(bp, "ab") as fh:
                if act == "DUTF8":
                    fh.write(b"\n\xff\xfe not utf-8 \xe2\x82")
                elif act == "DSHORT":
                    fh.write(b"\n611314477b11ddf2d69a")  # a record torn inside its checksum field
                else:
                    rec = ref.encode_record({"key": K, "integrity": sri(D2), "time": 9, "size": 1, "metadata": {"é": "ü"}, "raw_metadata": None})
                    fh.write(rec[: len(rec) - 7])
        return []
    if act == "DDIR":
        fsutil.wipe(bp)
        os.makedirs(bp, exist_ok=True)
        return []
    raise ValueError(act)


def tree_view(snap, window):
    """Decoded, flavour-independent view of a cache tree."""
    out = {}
    for rel, e in (snap or {}).items():
        if e[0] == "d":
            out[rel] = "d"
        elif e[0] == "l":
            out[rel] = ("l", e[1])
        elif rel.startswith(ref.INDEX_DIR + "/"):
            recs = []
            for (a, b, r) in ref.split_bucket(e[1]):
                if r is None:
                    recs.append(("raw", e[1][a:b]))
                else:
                    t = r["time"]
                    tn = "NOW" if (r["integrity"] is None or window[0] <= t <= window[1]) else t
                    recs.append(("rec", r["key"], r["integrity"], tn, r["size"], repr(r["metadata"]), r["raw_metadata"]))
            out[rel] = tuple(recs)
        elif rel.startswith("tmp/"):
            out["tmp/*"] = out.get("tmp/*", 0) + 1
        else:
            out[rel] = ("f", len(e[1]), ref.sha256hex(e[1]))
    return out


def lockstep_worker(ctx, job):
    res = V.new()
    depth = job["depth"]
    srvs = [ctx.srv(f) for f, _ in FLAVS]
    caches = [ctx.path("c12-%s" % f) for f, _ in FLAVS]
    aux = ctx.path("c12-aux")
    fsutil.wipe(aux)
    os.makedirs(aux)
    with open(os.path.join(aux, "target"), "wb") as fh:
        fh.write(ref.gen(D1["n"], D1["tag"]))
    t_start = int(time.time() * 1000) - 5
    window = (t_start, t_start + 10 ** 8)
    seen = {}
    import collections
    stack = collections.deque([([job["first"]], [None, None, None])])
    # breadth-first (a state is first reached by a shortest program): each node = (program, snapshots before its last action)
    while stack:
        prog, snaps = stack.popleft()
        act = prog[-1]
        results = []
        new_snaps = []
        for i, (f, side) in enumerate(FLAVS):
            fsutil.restore(caches[i], snaps[i])
            if snaps[i] is None:
                fsutil.wipe(caches[i])
            reps = do_action(srvs[i], side, caches[i], aux, act)
            results.append([norm_reply(r, window) for r in reps])
            new_snaps.append(fsutil.snapshot(caches[i]))
            res["transitions"] += 1
        res["evals"] += 1
        views = [tree_view(sn, window) for sn in new_snaps]
        replay = {"engine": "seqx", "mode": "lock-step", "program": prog}
        for i in (1, 2):
            if results[i] != results[0]:
                j = [x != y for x, y in zip(results[i], results[0])].index(True) if len(results[i]) == len(results[0]) else 0
                V.violation(res, "lockstep:%s:reply:%s-vs-sync:%s/%s" % (act, FLAVS[i][0], _cls(results[0], j), _cls(results[i], j)),
                            "after program %s the %s flavour replied %r, the sync flavour %r" % (prog, FLAVS[i][0], results[i], results[0]), replay)
            if views[i] != views[0]:
                diff = sorted(k for k in set(views[i]) | set(views[0]) if views[i].get(k) != views[0].get(k))
                V.violation(res, "lockstep:%s:tree:%s-vs-sync" % (act, FLAVS[i][0]),
                            "after program %s the caches differ at %s: %s=%r sync=%r" % (prog, diff[:3], FLAVS[i][0], views[i].get(diff[0]), views[0].get(diff[0])), replay)
        V.outcome(res, "%s:%s" % (act, results[0][0][0] + ":" + (results[0][0][1] if results[0] and results[0][0][0] in ("err", "abnormal") else "") if results[0] else "damage"))
        key = (repr(sorted(views[0].items(), key=repr)), repr(sorted(views[1].items(), key=repr)), repr(sorted(views[2].items(), key=repr)))
        hk = V.h(key)
        # depth-first order reaches a state first at the END of some long program; it must still be expanded when a
        # shorter program reaches it later, so the depth at which it was expanded is part of the bookkeeping
        if seen.get(hk, 10 ** 9) <= len(prog) and len(prog) > 1:
            continue
        if hk not in seen:
            res["states"] += 1
        seen[hk] = len(prog)
        if len(prog) < depth:
            for a in ACTIONS:
                if len(prog) + 1 == depth and a in DAMAGE:
                    continue   # a damage step as the LAST step of a program is applied identically to the three caches by the driver and observed by nothing
                stack.append((prog + [a], new_snaps))
    for c in caches:
        fsutil.wipe(c)
    res["distinct"] = set(seen)
    res["samples"].append({"first_action": job["first"], "depth": depth, "programs_run": res["evals"]})
    return res


def _cls(r, j):
    if j < len(r):
        x = r[j]
        return x[0] + ("" if x[0] not in ("err", "abnormal") else ":" + str(x[1])[:60].replace(" ", ""))
    return "none"


def mixed_worker(ctx, job):
    """One shared cache; step i by flavour phi(i); all phi; compared with the pure-S run."""
    res = V.new()
    srvs = [ctx.srv(f) for f, _ in FLAVS]
    cache = ctx.path("c12-mixed")
    aux = ctx.path("c12-aux-m")
    fsutil.wipe(aux)
    os.makedirs(aux)
    t_start = int(time.time() * 1000) - 5
    window = (t_start, t_start + 10 ** 8)
    for prog in job["programs"]:
        base = None
        for phi in itertools.product(range(3), repeat=len(prog)):
            fsutil.wipe(cache)
            trace = []
            for act, fi in zip(prog, phi):
                reps = do_action(srvs[fi], FLAVS[fi][1], cache, aux, act)
                trace.append([norm_reply(r, window) for r in reps])
                res["transitions"] += 1
            view = tree_view(fsutil.snapshot(cache), window)
            res["evals"] += 1
            res["distinct"].add(V.h(tuple(prog), phi))
            if base is None:
                base = (trace, view)
                continue
            if trace != base[0] or view != base[1]:
                step = next((i for i, (x, y) in enumerate(zip(trace, base[0])) if x != y), len(prog) - 1)
                V.violation(res, "mixed:%s:%s" % (prog[step], "reply" if trace != base[0] else "tree"),
                            "program %s with flavour assignment %s differs from the pure-sync run at step %d: %r vs %r" % (
                                prog, [FLAVS[i][0] for i in phi], step, trace[step], base[0][step]),
                            {"engine": "seqx", "mode": "mixed-flavour", "program": prog, "assignment": [FLAVS[i][0] for i in phi]})
                V.outcome(res, "mixed-differs")
            else:
                V.outcome(res, "mixed-agrees")
    fsutil.wipe(cache)
    res["samples"].append({"mixed_program": job["programs"][0], "assignments": 3 ** len(job["programs"][0])})
    return res


def worker(ctx, job):
    return lockstep_worker(ctx, job) if job["kind"] == "lockstep" else mixed_worker(ctx, job)


def main(tier, seed=0):
    quick = tier == "quick"
    depth = 4 if quick else 5
    jobs = [{"kind": "lockstep", "first": a, "depth": depth} for a in ACTIONS]
    mlen = 3
    progs = [list(p) for n in range(1, mlen + 1) for p in itertools.product(MIXED, repeat=n)]
    chunk = max(1, len(progs) // 48)
    for i in range(0, len(progs), chunk):
        jobs.append({"kind": "mixed", "programs": progs[i:i + chunk]})
    return run.run_check(PROP, tier, jobs, worker, level="model_checking",
                         rule="lock-step: tree of all programs up to the length bound over %d actions (writes with options / chunked / one-shot / by address / rejected / multi-hash / other-algorithm integrity, reads and lookups, extractions, removals, link_to, %d damage steps), " % (len(ACTIONS), sum(1 for a in ACTIONS if a.startswith("D"))) +
                              "executed on three caches by the three flavour builds, node = triple of decoded trees (de-duplicated), every step compares the normalised replies and the decoded "
                              "trees pairwise with the sync flavour; mixed: every program up to its bound over %d actions" % len(MIXED) + " x every flavour assignment phi in {S,A,T}^len on one shared cache, "
                              "compared with the pure-sync run; states = distinct state triples, evaluations = program steps / assignments executed",
                         technique="differential lock-step exploration of the three implementations against each other (explicit-state, de-duplicated on state triples)",
                         assumptions=["error messages and path contexts are not compared, only variant and io kind", "wall-clock and tombstone times are normalised",
                                      "hard_link by key exists in every flavour; by-address/unchecked hard links and reflink*_unchecked exist only as _sync calls and are not compared"],
                         seed=seed, timeout=30.0, budget_s=280 if quick else 3000)
