"""C16 — addresses are pure digests: identical data is stored once, algorithms coexist.

(A) digest oracle: algorithm x size x entry point x side x flavour, returned address compared with hashlib
    and, for a sub-table, with coreutils sha*sum (third opinion); xxh3 with the xxhash-rust crate.
(B) explicit-state BFS over histories that re-write the same bytes under two keys / by address, via
    one-shot / stepwise / other chunking / sync / async, under three algorithms, with a damage action per
    algorithm; in every state: the set of files under content-v2 is exactly one per (algorithm, bytes) of
    the model and byte-identical, every key resolves, damaged copies fail only their own algorithm.
(C) all five algorithms side by side in one cache.
"""
import os
import subprocess
import time

from vlib import fsutil, ref, run, seqx, tables, wr
from vlib.ops import is_async
from vlib.run import V, classify
from checks.c09 import merge

PROP = "C16"
B = {"n": 33, "tag": 77}


class C16Spec(seqx.Spec):
    prop = PROP
    sig_prefix = "dedup"

    def __init__(self, flavour, depth, algos):
        self.flavour = flavour
        self.depth = depth
        self.keys = ["k1", "k2"]
        self.algos = algos
        self.values = {}
        for a in algos:
            self.values["B-" + a] = {"n": B["n"], "tag": B["tag"], "algo": a, "time": 5, "chunks": None}
            self.values["Bc-" + a] = {"n": B["n"], "tag": B["tag"], "algo": a, "time": 5, "chunks": [1, B["n"] - 1], "declare_size": True}

    def actions(self, state):
        out = []
        for a in self.algos:
            for k in self.keys:
                for side in ("s", "a"):
                    out.append({"t": "W", "key": k, "val": "B-" + a, "side": side, "how": "session"})
                    out.append({"t": "W", "key": k, "val": "Bc-" + a, "side": side, "how": "session"})
            for side in ("s", "a"):
                out.append({"t": "W", "key": "k1", "val": "B-" + a, "side": side, "how": "oneshot"})
                out.append({"t": "WH", "val": "B-" + a, "side": side})
            out.append({"t": "D", "val": "B-" + a})
            for side in ("s", "a"):
                out.append({"t": "OVF", "val": "B-" + a, "side": side})
                out.append({"t": "WHDEC", "val": "B-" + a, "side": side})
        return out

    def apply(self, ctx, res, srv, cache, action, model, replay):
        t = action["t"]
        if t == "WH":
            v = self.values[action["val"]]
            data = ref.gen(v["n"], v["tag"])
            want = ctx.sri(v["algo"], data)
            rep, trace = wr.do_write(srv, cache, side=action["side"], entry="hash_algo", algo=v["algo"], n=v["n"], tag=v["tag"])
            res["transitions"] += 1
            if rep.get("ok") != want:
                r = dict(replay)
                r["reply"] = rep
                V.violation(res, "dedup:write_hash/%s:%s" % (action["side"], classify(rep) if "ok" not in rep else "wrong-digest"),
                            "write_hash returned %s, expected %s" % (rep, want), r)
                if "ok" not in rep:
                    return rep
            model.write(None, want, data, size=v["n"], time=0)
            return rep
        if t == "WHDEC":
            # by-address writer with a correctly declared size (memory-mapped path), fed a chunk that is shorter than
            # an earlier one, then the rest
            v = self.values[action["val"]]
            n, tag = v["n"], v["tag"]
            data = ref.gen(n, tag)
            want = ctx.sri(v["algo"], data)
            rep, trace = wr.do_write(srv, cache, side=action["side"], entry="open_hash", algo=v["algo"], n=n, tag=tag, chunks=[12, 5, n - 17], opts={"size": n})
            res["transitions"] += len(trace)
            if rep.get("ok") != want:
                r = dict(replay)
                r["reply"] = rep
                V.violation(res, "dedup:write_hash-decreasing-chunks/%s:%s" % (action["side"], classify(rep) if "ok" not in rep else "wrong-digest"), "by-address write in chunks [12,5,%d]: %r" % (n - 17, rep), r)
                if "ok" not in rep:
                    return rep
            model.write(None, want, data, size=n, time=0)
            return rep
        if t == "OVF":
            # the stored bytes are sent again through a writer whose declared size is exactly filled by the first
            # chunk and then exceeded: the commit is refused, the stored copy must stay byte-identical
            v = self.values[action["val"]]
            n, tag = v["n"], v["tag"]
            m = n // 2
            rep, trace = wr.do_write(srv, cache, side=action["side"], entry="open", key="k2", algo=v["algo"], n=n, tag=tag, chunks=[m, n - m], opts={"size": m})
            res["transitions"] += len(trace)
            if rep.get("err", {}).get("variant") != "SizeMismatch":
                r = dict(replay)
                r["reply"] = rep
                V.violation(res, "dedup:overflowing-writer/%s:%s" % (action["side"], classify(rep)), "writer with declared size %d given %d bytes: %r" % (m, n, rep), r)
            sri_ = ctx.sri(v["algo"], ref.gen(n, tag))
            try:
                with open(os.path.join(cache, ref.content_rel(sri_)), "rb") as fh:
                    on_disk = fh.read()
            except OSError:
                on_disk = None
            if on_disk == ref.gen(n, tag):
                # the refused data may stay retrievable by address; publishing it replaces a damaged copy by a good one
                model.content[sri_] = on_disk
                model.damaged.discard(sri_)
            return rep
        if t == "D":
            v = self.values[action["val"]]
            data = ref.gen(v["n"], v["tag"])
            sri = ctx.sri(v["algo"], data)
            p = os.path.join(cache, ref.content_rel(sri))
            if sri in model.content and os.path.exists(p):
                with open(p, "r+b") as fh:
                    fh.seek(7)
                    b = fh.read(1)
                    fh.seek(7)
                    fh.write(bytes([b[0] ^ 0x10]))
                # flipping the same bit twice restores the file
                model.damaged.symmetric_difference_update({sri})
            return {"ok": None}
        return seqx.apply_standard(self, ctx, res, srv, cache, action, model, replay)

    def extra_state_check(self, ctx, res, cache, snap, model, replay):
        files = {r: e for r, e in (snap or {}).items() if r.startswith(ref.CONTENT_DIR + "/") and e[0] != "d"}
        want = {ref.content_rel(s): d for s, d in model.content.items()}
        if set(files) != set(want):
            r = dict(replay)
            r["files"] = sorted(files)
            r["expected_files"] = sorted(want)
            V.violation(res, "dedup:content-file-set", "files under content-v2 are %s, the model expects exactly %s" % (sorted(files), sorted(want)), r)
            return
        for rel, e in files.items():
            sri = [s for s in model.content if ref.content_rel(s) == rel][0]
            if sri in model.damaged:
                continue
            if e[0] != "f" or e[1] != want[rel]:
                V.violation(res, "dedup:stored-copy-not-identical", "content file %s is not byte-identical to the data" % rel, dict(replay))
                return
        if any(r.startswith("tmp/") for r in (snap or {})):
            V.violation(res, "dedup:temp-file-left", "temp file left after a completed write", dict(replay))


def label_patch():
    # extend seqx.label for the extra action kinds
    old = seqx.label

    def lab(action):
        if action["t"] == "WH":
            return "WH(%s,%s)" % (action["val"], action["side"])
        if action["t"] == "D":
            return "DAMAGE(%s)" % action["val"]
        if action["t"] == "WHDEC":
            return "WRITE_HASH-DECREASING-CHUNKS(%s,%s)" % (action["val"], action["side"])
        if action["t"] == "OVF":
            return "OVERFLOWING-WRITER(%s,%s)" % (action["val"], action["side"])
        return old(action)
    seqx.label = lab


label_patch()


def coreutils_digest(algo, data):
    tool = {"sha1": "sha1sum", "sha256": "sha256sum", "sha384": "sha384sum", "sha512": "sha512sum"}[algo]
    p = subprocess.run([tool], input=data, stdout=subprocess.PIPE)
    return p.stdout.split()[0].decode()


def digest_worker(ctx, job):
    res = V.new()
    flavour, side, algo = job["flavour"], job["side"], job["algo"]
    srv = ctx.srv(flavour)
    cache = ctx.fresh("c16-")
    sizes = tables.SIZES_QUICK if ctx.tier == "quick" else tables.SIZES_ALL
    for n in sizes:
        data = ref.gen(n, 9)
        want = ctx.sri(algo, data)
        if algo != "xxh3" and n in (0, 5, 8193, ref.MIB + 1) and side == "s" and flavour == "sync":
            third = ref.sri_of(algo, coreutils_digest(algo, data))
            res["evals"] += 1
            if third != want:
                V.violation(res, "digest:reference-implementations-disagree", "hashlib %s vs coreutils %s" % (want, third), {"algo": algo, "n": n})
        got = {}
        for entry, key, chunks in (("oneshot_algo", "kA", None), ("hash_algo", None, None), ("open", "kB", tables.chunkings(n, full=False)[-1] if n else None),
                                   ("create_algo", "other-key-é", None), ("open_hash", None, [n // 2, n - n // 2] if n > 1 else None)):
            rep, _ = wr.do_write(srv, cache, side=side, entry=entry, key=key, algo=algo, n=n, tag=9, chunks=chunks)
            res["evals"] += 1
            res["distinct"].add(V.h(flavour, side, algo, n, entry))
            got[entry] = rep.get("ok")
            if rep.get("ok") != want:
                V.violation(res, "digest:%s/%s:%s:%s" % (entry, side, "n=0" if n == 0 else "n>0", classify(rep) if "ok" not in rep else "wrong-digest"),
                            "address %s for %d bytes under %s, standard digest is %s" % (rep, n, algo, want),
                            {"engine": "seqx", "flavour": flavour, "side": side, "entry": entry, "algo": algo, "n": n, "tag": 9, "reply": rep})
        V.outcome(res, "addresses-agree" if len(set(got.values())) == 1 else "addresses-differ")
        # exactly one stored copy
        snap = fsutil.snapshot(cache) or {}
        files = [r for r, e in snap.items() if r.startswith(ref.CONTENT_DIR + "/" + algo + "/") and e[0] == "f"]
        res["evals"] += 1
        if files != [ref.content_rel(want)]:
            V.violation(res, "digest:copies:%s" % side, "after 5 writes of the same bytes the %s subtree holds %s" % (algo, files),
                        {"engine": "seqx", "flavour": flavour, "side": side, "algo": algo, "n": n})
        fsutil.wipe(cache)
    res["samples"].append({"kind": "digest", "flavour": flavour, "side": side, "algo": algo, "sizes": len(sizes)})
    return res


def coexist_worker(ctx, job):
    """(C) five algorithms in one cache; damage one copy at a time."""
    res = V.new()
    flavour, side = job["flavour"], job["side"]
    srv = ctx.srv(flavour)
    for n in (0, 5, 8193):
        cache = ctx.fresh("c16c-")
        data = ref.gen(n, 3)
        sris = {}
        for a in ref.ALGOS:
            rep, _ = wr.do_write(srv, cache, side=side, entry="oneshot_algo", key="key-" + a, algo=a, n=n, tag=3)
            sris[a] = ctx.sri(a, data)
            res["evals"] += 1
            if rep.get("ok") != sris[a]:
                V.violation(res, "coexist:write:%s" % classify(rep), "write under %s: %s" % (a, rep), {"flavour": flavour, "side": side, "algo": a, "n": n})
        snap = fsutil.snapshot(cache) or {}
        for a in ref.ALGOS:
            files = [r for r, e in snap.items() if r.startswith("%s/%s/" % (ref.CONTENT_DIR, a)) and e[0] == "f"]
            if files != [ref.content_rel(sris[a])]:
                V.violation(res, "coexist:subtree", "subtree of %s holds %s" % (a, files), {"flavour": flavour, "side": side, "n": n})
        if n == 0:
            fsutil.wipe(cache)
            continue
        for dmg in ref.ALGOS:
            p = os.path.join(cache, ref.content_rel(sris[dmg]))
            if not os.path.isfile(p):
                V.violation(res, "coexist:content-file-not-at-its-address", "no content file at %s after a successful write under %s" % (ref.content_rel(sris[dmg]), dmg),
                            {"flavour": flavour, "side": side, "n": n, "algo": dmg})
                continue
            with open(p, "r+b") as fh:
                fh.write(bytes([data[0] ^ 1]))
            for a in ref.ALGOS:
                for name in (("read_sync", "read_hash_sync") if side == "s" else ("read", "read_hash")):
                    rep = srv.call({"op": name, "cache": cache, "key": "key-" + a, "sri": sris[a]})
                    res["evals"] += 1
                    res["distinct"].add(V.h(flavour, side, n, dmg, a, name))
                    if a == dmg:
                        if "err" not in rep:
                            V.violation(res, "coexist:damaged-copy-read-ok:%s" % name, "damaged %s copy was delivered: %s" % (a, rep),
                                        {"flavour": flavour, "side": side, "n": n, "damaged": dmg, "read": name})
                    elif not ("ok" in rep and wr.data_matches(rep["ok"], data)):
                        V.violation(res, "coexist:other-algorithm-affected:%s" % name, "damaging the %s copy changed reads under %s: %s" % (dmg, a, rep),
                                    {"flavour": flavour, "side": side, "n": n, "damaged": dmg, "algo": a, "read": name})
            with open(p, "r+b") as fh:
                fh.write(bytes([data[0]]))
        fsutil.wipe(cache)
    res["samples"].append({"kind": "coexist", "flavour": flavour, "side": side})
    return res


def rewrite_crash_worker(ctx, job):
    """(D) re-writing bytes that are already stored, killed at every file-system system call (and with every write
    torn): at every instant the stored copy stays in place, byte-identical, and the key that maps to it resolves."""
    import json as _json
    from vlib import fsx
    from checks.c03 import crash_points
    res = V.new()
    flavour, entry = job["flavour"], job["entry"]
    side = "s" if flavour == "sync" else "a"
    suf = "_sync" if side == "s" else ""
    cache = ctx.path("c16x-cache")
    fsutil.wipe(cache)
    n, tag = 4097, 88
    data = ref.gen(n, tag)
    sri_ = ctx.sri("sha256", data)
    wr.do_write(ctx.srv("sync"), cache, side="s", entry="oneshot", key="first", n=n, tag=tag)
    init = fsutil.snapshot(cache)
    g = {"gen": [n, tag]}
    if entry == "oneshot":
        prog = [{"op": "write" + suf, "cache": cache, "key": "second", "data": g}]
    elif entry == "hash":
        prog = [{"op": "write_hash" + suf, "cache": cache, "data": g}]
    else:
        h = {"ref": 0}
        prog = [{"op": ("sw_" if side == "s" else "aw_") + "open", "cache": cache, "key": "second", "opts": {"size": n}}, {"op": "w_write_all", "h": h, "data": g}, {"op": "w_commit", "h": h}]
    pf = ctx.path("prog-c16x.json")
    with open(pf, "w") as fh:
        _json.dump(prog, fh)

    def run_one(cp):
        fsutil.restore(cache, init)
        spec = {"roots": [cache], "actors": [fsx.actor(flavour, "R", pf)], "timeout_ms": 20000}
        if cp is not None:
            spec["crash"] = cp
        return fsx.run(spec, ctx.dir)

    _raw_run_one = run_one
    run_one = lambda cp: fsx.confirmed(lambda: _raw_run_one(cp))
    probe = run_one(None)
    steps = [{"sys": s_["sys"], "len": s_["len"]} for s_ in probe["steps"] if s_.get("step") is not None]
    cps = [c for c in crash_points(steps) if c["tear"] is None or c["tear"] in (0, 1, 2048, 4096)]
    srv = ctx.srv("sync")
    for cp in [None] + cps:
        rep = run_one(cp)
        res["evals"] += 1
        res["distinct"].add(V.h("rewrite-crash", flavour, entry, repr(cp)))
        replay = {"engine": "fsx", "mode": "crash", "scenario": "re-write of stored bytes via %s/%s" % (entry, flavour), "crash": cp}
        V.outcome(res, "rewrite-crash:%s" % ("complete" if cp is None else "killed"))
        for name, req in (("read_sync", {"op": "read_sync", "cache": cache, "key": "first"}), ("read_hash_sync", {"op": "read_hash_sync", "cache": cache, "sri": sri_})):
            r = srv.call(req)
            if not ("ok" in r and wr.data_matches(r["ok"], data)):
                V.violation(res, "dedup:rewrite-killed:%s/%s:stored-copy-lost:%s" % (entry, side, classify(r)),
                            "re-write of equal bytes killed at %s: %s of the earlier entry now gives %r" % (cp, name, r), replay)
                break
        snap = fsutil.snapshot(cache) or {}
        files = [r_ for r_, e in snap.items() if r_.startswith(ref.CONTENT_DIR + "/sha256/") and e[0] == "f"]
        if sorted(files) != [ref.content_rel(sri_)]:
            V.violation(res, "dedup:rewrite-killed:%s/%s:content-file-set" % (entry, side), "after the kill the sha256 subtree holds %s" % files, replay)
    fsutil.wipe(cache)
    res["samples"].append({"kind": "rewrite-crash", "flavour": flavour, "entry": entry, "kill_points": len(cps)})
    return res


def rejected_over_stored_worker(ctx, job):
    """(E) de-duplication under rejection: the bytes are already stored (one copy, shared); a writer that DECLARES another
    size (smaller / larger, both sides of the 1 MiB mapping limit) delivers exactly those bytes and its commit is rejected.
    The stored copy is still the file at the address, still matches it, and every key that shares it still reads."""
    res = V.new()
    flavour, side = job["flavour"], job["side"]
    srv = ctx.srv(flavour)
    pre = "sw_" if side == "s" else "aw_"
    for n in (1, 10, 4097):
        data = ref.gen(n, 29)
        for algo in (("sha256", "sha512") if ctx.tier == "quick" else ref.ALGOS):
            sri = ctx.sri(algo, data)
            for entry in ("open", "open_hash"):
                for declared in (n - 1, n + 1, n + 9, ref.MIB, ref.MIB + 5, 3 * ref.MIB):
                    for parts in (1, 2):
                        if declared < 1 or (parts == 2 and n < 2):
                            continue
                        cache = ctx.fresh("c16e-")
                        r0, _ = wr.do_write(srv, cache, side="s", entry="oneshot_algo", key="holder", algo=algo, n=n, tag=29)
                        case = {"flavour": flavour, "side": side, "algo": algo, "n": n, "entry": entry, "declared": declared, "chunks": parts}
                        replay = {"engine": "seqx", "mode": "rejected writer over stored bytes", "case": case}
                        sig = "dedup:rejected-over-stored:%s/%s:%s" % (entry, side, "declared<=1MiB" if declared <= ref.MIB else "declared>1MiB")
                        res["evals"] += 1
                        res["distinct"].add(V.h("E", flavour, side, algo, n, entry, declared, parts))
                        if r0.get("ok") != sri:
                            V.violation(res, sig + ":setup-" + classify(r0), "setup write failed: %r" % r0, replay)
                            continue
                        req = {"op": pre + "open", "cache": cache, "opts": {"size": declared, "algorithm": algo}}
                        if entry == "open":
                            req["key"] = "rejected"
                        ro = srv.call(req)
                        if "ok" not in ro:
                            V.violation(res, sig + ":open-" + classify(ro), "open failed: %r" % ro, replay)
                            continue
                        h = ro["ok"]["h"]
                        chunks = [n] if parts == 1 else [n // 2, n - n // 2]
                        off = 0
                        okw = True
                        for c_ in chunks:
                            rw = srv.call({"op": "w_write_all", "h": h, "data": {"gen": [n, 29, off, c_]}})
                            off += c_
                            okw = okw and "ok" in rw
                        rc = srv.call({"op": "w_commit" if okw else "w_drop", "h": h})
                        res["transitions"] += 4
                        V.outcome(res, "rejected-over-stored:%s" % classify(rc))
                        if "ok" in rc:
                            V.violation(res, sig + ":accepted", "a commit with declared size %d for %d bytes was accepted: %r" % (declared, n, rc), replay)
                        cp = os.path.join(cache, ref.content_rel(sri))
                        try:
                            with open(cp, "rb") as fh:
                                disk = fh.read()
                        except OSError:
                            disk = None
                        if disk != data:
                            V.violation(res, sig + ":stored-copy-changed", "after the rejected commit the file at the address holds %s" % ("nothing" if disk is None else "%d other bytes" % len(disk)), replay)
                            fsutil.wipe(cache)
                            continue
                        rr = srv.call({"op": "read_sync", "cache": cache, "key": "holder"})
                        if not ("ok" in rr and wr.data_matches(rr["ok"], data)):
                            V.violation(res, sig + ":holder-unreadable", "the key that shares the bytes reads %r" % rr, replay)
                        fsutil.wipe(cache)
    res["samples"].append({"kind": "rejected-over-stored", "flavour": flavour, "side": side})
    return res


def short_worker(ctx, job):
    """Addresses are pure digests also when the file system answers a write short (a legal POSIX answer): every write of
    the writer is answered short once, the caller sends the rest; the returned address must be the digest of the bytes and
    the file at it must hold them (the driver of C02's short-answer mode is reused, the address verdicts are kept)."""
    import checks.c02 as c02
    r = c02.short_worker(ctx, job)
    keep = []
    for v in r["violations"]:
        if "wrong-digest" in v["sig"] or "content-file-not-matching-address" in v["sig"]:
            v = dict(v)
            v["sig"] = "address:" + v["sig"]
            keep.append(v)
    r["violations"] = keep
    r["samples"] = [{"kind": "short-answers", "flavour": job["flavour"], "entry": job["entry"], "n": job["n"]}]
    return r


def worker(ctx, job):
    if job["kind"] == "short":
        return short_worker(ctx, job)
    if job["kind"] == "rejected-over-stored":
        return rejected_over_stored_worker(ctx, job)
    if job["kind"] == "rewrite-crash":
        return rewrite_crash_worker(ctx, job)
    return digest_worker(ctx, job) if job["kind"] == "digest" else coexist_worker(ctx, job)


def main(tier, seed=0):
    t0 = time.time()
    jobs = []
    for flavour in ("sync", "astd", "tok"):
        for side in (["s"] if not is_async(flavour) else ["s", "a"]):
            if tier == "quick" and flavour != "sync" and side == "s":
                continue
            for algo in ref.ALGOS:
                jobs.append({"kind": "digest", "flavour": flavour, "side": side, "algo": algo})
            jobs.append({"kind": "coexist", "flavour": flavour, "side": side})
            jobs.append({"kind": "rejected-over-stored", "flavour": flavour, "side": side})
    for flavour in ("sync", "astd", "tok"):
        for entry in ("oneshot", "hash", "session"):
            if tier == "quick" and flavour == "tok" and entry != "oneshot":
                continue
            jobs.append({"kind": "rewrite-crash", "flavour": flavour, "entry": entry})
    for flavour, side in (("sync", "s"), ("astd", "a"), ("tok", "a")):
        for entry in ("oneshot", "hash", "session", "session_declared"):
            jobs.append({"kind": "short", "flavour": flavour, "side": side, "entry": entry, "n": 4097})
    # part A + C through run_check's machinery but without finishing: reuse its aggregation by calling it with a private prop name
    import vlib.run as R
    base = R.base_dir()
    agg_total = None
    # run A/C
    rc_agg = _collect(tier, jobs, seed)
    total = rc_agg[0]
    merr_all = rc_agg[1]
    total["extra"] = {"digest_and_coexist_jobs": len(jobs), "runs": {}}
    total["distinct"] = set(total["distinct"])
    capped_any = False
    algos = ("sha256", "xxh3") if tier == "quick" else ("sha256", "sha1", "xxh3")
    runs = [C16Spec("astd", 4, algos)] if tier == "quick" else [C16Spec("astd", 3, ("sha256", "sha1", "xxh3", "sha512")), C16Spec("astd", 5, ("sha256", "xxh3")), C16Spec("tok", 3, ref.ALGOS)]
    for spec in runs:
        agg, merr, capped, wall = seqx.bfs(spec, tier, level="model_checking", rule="", technique="", finish=False,
                                           budget_s=200 if tier == "quick" else 2400)
        merr_all += merr
        capped_any |= capped
        total = merge(total, agg, "bfs-%s-depth%d" % (spec.flavour, spec.depth))
    return run.finish(PROP, tier, total, merr_all, time.time() - t0, level="model_checking",
                      rule="(A) case = (flavour, side, algorithm, size, entry point): returned address vs hashlib / coreutils / xxhash-rust, one stored copy after 5 "
                           "writes of equal bytes; (B) BFS state = (canonical disk, model) over {write B under k1/k2 whole or chunked with declared size, one-shot, "
                           "write_hash, damage the copy} x algorithms x {sync, async}: file set under content-v2 = exactly one byte-identical file per (algorithm, bytes); "
                           "(C) five algorithms side by side, each copy damaged in turn; (D) re-write of stored bytes (one-shot / by address / session; sync, async-std, tokio) killed at every file-system "
                           "system call: the stored copy stays in place and byte-identical, its key resolves",
                      technique="explicit-state breadth-first model checking of on-disk states plus bounded-exhaustive input enumeration, independent digest oracles",
                      assumptions=["xxh3 has no second implementation in this sandbox: compared with the xxhash-rust crate called directly"],
                      seed=seed, capped=capped_any, jobs_done=len(runs) + len(jobs), jobs_total=len(runs) + len(jobs), exhaustive=not capped_any)


def _collect(tier, jobs, seed):
    """Run input-enumeration jobs in a pool and return (aggregate, machinery errors)."""
    import multiprocessing as mp
    from vlib import run as R
    counter = mp.Value("i", 0)
    agg = V.new()
    merr = []
    pool = mp.Pool(min(R.NPROC, len(jobs)), initializer=R._init, initargs=(R.base_dir(), counter, tier, seed, 20.0, worker))
    try:
        for r in pool.imap_unordered(R._work, jobs, chunksize=1):
            if "machinery_error" in r:
                merr.append(r["machinery_error"])
                continue
            agg["evals"] += r["evals"]
            agg["transitions"] += r["transitions"]
            agg["distinct"] |= set(r["distinct"])
            agg["violations"] += r["violations"]
            for k, v in r["outcomes"].items():
                agg["outcomes"][k] = agg["outcomes"].get(k, 0) + v
            if len(agg["samples"]) < 4:
                agg["samples"] += r["samples"][:1]
    finally:
        pool.terminate()
        pool.join()
    return agg, merr
