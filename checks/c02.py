"""C02 — what is written under a key or address is exactly what is read back.

Bounded-exhaustive input enumeration through the real API (seam a): entry point x side x flavour x
algorithm x size x chunking x declared size, plus hostile keys; every write is read back through every
read entry point and compared with the independent reference digest / bytes.
"""
import os

from vlib import fsutil, ref, tables, wr
from vlib.ops import is_async
from vlib.run import V, classify, run_check

PROP = "C02"


def size_class(n):
    if n == 0:
        return "n=0"
    if n <= ref.MIB:
        return "0<n<=1MiB"
    return "n>1MiB"


def chunk_class(n, chunks):
    if chunks is None or chunks == [n]:
        return "single"
    if 0 in chunks:
        return "with-empty-chunk"
    return "multi"


def sides_of(flavour, tier):
    if not is_async(flavour):
        return ["s"]
    if tier == "quick":
        return ["a", "s"] if flavour == "astd" else ["a"]
    return ["s", "a"]


def make_jobs(tier):
    jobs = []
    for flavour in ("sync", "astd", "tok"):
        for side in sides_of(flavour, tier):
            for entry, keyed, takes_algo, streamed in wr.WRITE_ENTRIES:
                algos = ref.ALGOS if takes_algo else ("sha256",)
                for algo in algos:
                    jobs.append({"kind": "data", "flavour": flavour, "side": side, "entry": entry, "algo": algo})
            jobs.append({"kind": "keys", "flavour": flavour, "side": side})
    for flavour, side in (("sync", "s"), ("astd", "a"), ("tok", "a")):
        for entry in ("oneshot", "hash", "session", "session_declared"):
            for n in ((5, 4097) if tier == "quick" else (5, 4097, ref.MIB + 1)):
                jobs.append({"kind": "short", "flavour": flavour, "side": side, "entry": entry, "n": n})
    return jobs


def check_write(ctx, res, srv, cache, flavour, side, entry, key, algo, n, tag, chunks, declared, write_op="w_write_all", opts_extra=None, flush_each=False):
    data = ref.gen(n, tag)
    eff = wr.effective_algo(entry, algo)
    opts = dict(opts_extra or {})
    if declared == "correct":
        opts["size"] = n
    rep, trace = wr.do_write(srv, cache, side=side, entry=entry, key=key, algo=algo, n=n, tag=tag, chunks=chunks, opts=opts,
                             write_op=write_op, flush_each=flush_each)
    res["evals"] += 1
    res["transitions"] += len(trace)
    case = {"flavour": flavour, "side": side, "entry": entry, "key": key if key is None or len(key) < 80 else key[:20] + "...(%d)" % len(key),
            "algo": algo, "n": n, "tag": tag, "chunks": chunks if chunks is None or len(chunks) < 20 else "%d chunks" % len(chunks),
            "declared": declared, "write_op": write_op, "flush_after_every_chunk": flush_each}
    base_sig = "write:%s/%s:%s:declared=%s:chunks=%s" % (entry, side, size_class(n), declared, chunk_class(n, chunks))
    res["distinct"].add(V.h(entry, side, eff, n, tuple(chunks) if chunks else None, declared, key, write_op, flush_each))
    cls = classify(rep)
    V.outcome(res, "write:" + cls)
    if "ok" not in rep:
        V.violation(res, "%s:%s" % (base_sig, cls), "write on a healthy file system did not succeed: %s" % _short(rep),
                    {"engine": "seqx", "flavour": flavour, "case": case, "reply": rep})
        return
    got = rep["ok"]
    want = ctx.sri(eff, data)
    if got != want:
        V.violation(res, "%s:wrong-digest" % base_sig, "returned integrity %s, reference digest %s" % (got, want),
                    {"engine": "seqx", "flavour": flavour, "case": case, "reply": rep, "expected": want})
        return
    # content file on disk
    cpath = os.path.join(cache, ref.content_rel(want))
    try:
        with open(cpath, "rb") as fh:
            disk = fh.read()
    except OSError as e:
        disk = None
    if disk != data:
        V.violation(res, "%s:content-file-differs" % base_sig,
                    "content file %s holds %s, expected %d bytes of the written data" % (
                        ref.content_rel(want), "nothing" if disk is None else "%d bytes" % len(disk), n),
                    {"engine": "seqx", "flavour": flavour, "case": case})
        return
    # read back through every read entry point
    for name, rside, kind in wr.read_entry_points(flavour):
        if kind == "key" and key is None:
            continue
        for buf in ((1024,) if not name.startswith("stream") else (1024, 7) if n <= 8193 else (8192,)):
            r, d = wr.do_read(srv, cache, name, key=key, sri=want, buf=buf)
            res["transitions"] += 1
            if d is None or not wr.data_matches(d, data):
                V.violation(res, "%s:readback:%s:%s" % (base_sig, name, classify(r) if d is None else "wrong-bytes"),
                            "%s after the write gave %s" % (name, _short(r)),
                            {"engine": "seqx", "flavour": flavour, "case": case, "read": name, "reply": r})
                return
    V.outcome(res, "roundtrip-ok")


def _short(rep):
    s = repr(rep)
    return s if len(s) < 400 else s[:400] + "..."


def short_program(entry, side, cache, n, tag, sri):
    s = side == "s"
    suf = "_sync" if s else ""
    g = {"gen": [n, tag]}
    h = {"ref": 0}
    key = "short-key"
    if entry == "oneshot":
        w = [{"op": "write" + suf, "cache": cache, "key": key, "data": g}]
    elif entry == "hash":
        w = [{"op": "write_hash" + suf, "cache": cache, "data": g}]
        key = None
    elif entry in ("session", "session_declared"):
        opts = {"size": n} if entry == "session_declared" else {}
        half = n // 2
        w = [{"op": ("sw_" if s else "aw_") + "open", "cache": cache, "key": key, "opts": opts}, {"op": "w_write_all", "h": h, "data": {"gen": [n, tag, 0, half]}},
             {"op": "w_write_all", "h": h, "data": {"gen": [n, tag, half, n - half]}}, {"op": "w_commit", "h": h}]
    r = [{"op": "read_hash" + suf, "cache": cache, "sri": sri}]
    if key is not None:
        r.append({"op": "read" + suf, "cache": cache, "key": key})
        r.append({"op": "metadata" + suf, "cache": cache, "key": key})
        r.append({"op": ("sr_" if s else "ar_") + "open", "cache": cache, "key": key})
        r.append({"op": "r_stream", "h": {"ref": len(w) + 3}, "n": 1000})
    return w, r, key


def short_worker(ctx, job):
    """Environment answers a healthy POSIX file system may legally give: every write/read of the operation
    is answered short (no error), one deviation per execution (thorough: two)."""
    import json as _json
    from vlib import fsx
    res = V.new()
    flavour, side, entry, n = job["flavour"], job["side"], job["entry"], job["n"]
    tag = 23
    data = ref.gen(n, tag)
    want = ctx.sri("sha256", data)
    cache = ctx.path("c02-short-cache")
    w, r, key = short_program(entry, side, cache, n, tag, want)
    pf = ctx.path("prog-c02s.json")
    with open(pf, "w") as fh:
        _json.dump(w + r, fh)

    def run_one(faults):
        fsutil.wipe(cache)
        return fsx.run({"roots": [cache], "actors": [fsx.actor(flavour, "S", pf)], "timeout_ms": 30000, "faults": faults}, ctx.dir)

    _raw_run_one = run_one
    run_one = lambda faults: fsx.confirmed(lambda: _raw_run_one(faults))
    probe = run_one([])
    steps = [s for s in probe["steps"] if s.get("step") is not None]
    singles = []
    for i, st in enumerate(steps):
        if st["sys"] in ("write", "pwrite64", "read", "pread64") and st["len"] > 1:
            for t in fsx.short_lengths(st["len"]):
                singles.append({"step": i, "short": t, "sysname": st["sys"]})
    sets = [[]] + [[f] for f in singles]
    if ctx.tier != "quick":
        # two short answers per execution; when an operation makes very many write calls (async-std splits 1 MiB into
        # 8 KiB writes) the pairs are formed over the first 5 and last 5 affected calls only (reported in the evidence)
        steps_with_short = sorted({f["step"] for f in singles})
        keep = set(steps_with_short[:5] + steps_with_short[-5:])
        pool = [f for f in singles if f["step"] in keep]
        if len(keep) < len(steps_with_short):
            res["extra"]["short_pairs_restricted_to_first_and_last_5_calls"] = 1
        wr_singles = [f for f in pool if f["sysname"] in ("write", "pwrite64")]
        for a in wr_singles:
            for b in pool:
                if b["step"] > a["step"]:
                    sets.append([a, b])
    for faults in sets:
        rep = run_one(faults)
        res["evals"] += 1
        fdesc = "+".join("%s@%d->%d" % (f["sysname"], f["step"], f["short"]) for f in faults) or "none"
        fclass = "+".join("short-%s" % f["sysname"] for f in faults) or "none"
        res["distinct"].add(V.h("short", flavour, side, entry, n, fdesc))
        replay = {"engine": "fsx", "mode": "short", "flavour": flavour, "side": side, "entry": entry, "n": n, "tag": tag, "faults": faults}
        sig = "short:%s/%s:%s" % (entry, side, fclass)
        if rep["status"] != "ok":
            V.violation(res, sig + ":" + rep["status"], "execution under short answers %s: %s" % (fdesc, rep["status"]), replay)
            continue
        out = fsx.replies(rep, 0)
        wrep = out[len(w) - 1] if len(out) >= len(w) else (out[-1] if out else {"missing": True})
        V.outcome(res, "short:" + classify(wrep))
        if wrep.get("ok") != want:
            kind = classify(wrep) if "ok" not in wrep else "wrong-digest"
            V.violation(res, "%s:%s" % (sig, kind), "with a legal short answer (%s) the write replied %s, true digest is %s" % (fdesc, _short(wrep), want), replay)
            # C03's invariant on the resulting tree is judged below as well
        snap = fsutil.snapshot(cache) or {}
        for rel, e in snap.items():
            if rel.startswith(ref.CONTENT_DIR + "/") and e[0] == "f" and ref.content_path_ok(rel, e[1], ctx.xxh3) is False:
                V.violation(res, sig + ":content-file-not-matching-address", "short answer %s: content file %s (%d bytes) does not hash to its address" % (fdesc, rel, len(e[1])), replay)
        if wrep.get("ok") == want:
            for rr in out[len(w):]:
                d = rr.get("ok")
                if isinstance(d, dict) and "data" in d:
                    d = d["data"]
                if isinstance(d, dict) and "h" in d:
                    continue
                if isinstance(d, dict) and "integrity" in d and "size" in d:
                    if d["size"] != n or d["integrity"] != want:
                        V.violation(res, sig + ":recorded-size-or-integrity", "short answer %s: the index entry records size %r / integrity %r for %d bytes" % (fdesc, d["size"], d["integrity"], n), replay)
                        break
                    continue
                if not (isinstance(d, dict) and wr.data_matches(d, data)):
                    V.violation(res, sig + ":readback:" + (classify(rr) if "ok" not in rr else "wrong-bytes"), "short answer %s: read back gave %s" % (fdesc, _short(rr)), replay)
                    break
    fsutil.wipe(cache)
    res["samples"].append({"kind": "short", "flavour": flavour, "side": side, "entry": entry, "n": n, "short_answer_sets": len(sets), "example": sets[len(sets) // 2]})
    return res


def worker(ctx, job):
    if job.get("kind") == "short":
        return short_worker(ctx, job)
    res = V.new()
    flavour, side = job["flavour"], job["side"]
    srv = ctx.srv(flavour)
    cache = ctx.fresh("c02-")
    quick = ctx.tier == "quick"
    count = 0
    if job["kind"] == "keys":
        for entry, keyed, takes_algo, streamed in wr.WRITE_ENTRIES:
            if not keyed:
                continue
            keys = tables.KEYS_HOSTILE if not quick else tables.KEYS_HOSTILE[:-5] + tables.KEYS_HOSTILE[-3:]
            for i, key in enumerate(keys):
                n = 5 if len(key) < 1000 else 3
                check_write(ctx, res, srv, cache, flavour, side, entry, key, "sha256", n, 7 + i % 5, [n] if not streamed else [2, n - 2], "none")
        # opaqueness (C15 shares this): confusable pairs hold different values independently
        for a, b in tables.CONFUSABLE_PAIRS:
            c2 = ctx.fresh("c02p-")
            check_write(ctx, res, srv, c2, flavour, side, "oneshot", a, "sha256", 4, 1, None, "none")
            check_write(ctx, res, srv, c2, flavour, side, "oneshot", b, "sha256", 6, 2, None, "none")
            op = "read_sync" if side == "s" else "read"
            ra = srv.call({"op": op, "cache": c2, "key": a})
            rb = srv.call({"op": op, "cache": c2, "key": b})
            res["evals"] += 1
            if not ("ok" in ra and wr.data_matches(ra["ok"], ref.gen(4, 1)) and "ok" in rb and wr.data_matches(rb["ok"], ref.gen(6, 2))):
                V.violation(res, "confusable-keys:%s" % side, "keys %r and %r are not independent entries" % (a, b),
                            {"engine": "seqx", "flavour": flavour, "keys": [a, b], "replies": [ra, rb]})
            fsutil.wipe(c2)
        fsutil.wipe(cache)
        res["samples"].append({"kind": "keys", "flavour": flavour, "side": side, "keys": len(tables.KEYS_HOSTILE)})
        return res

    entry, algo = job["entry"], job["algo"]
    info = dict((e[0], e) for e in wr.WRITE_ENTRIES)[entry]
    keyed, streamed = info[1], info[3]
    sizes = tables.SIZES_QUICK if quick else tables.SIZES_ALL
    if quick and algo not in ("sha256", "xxh3"):
        sizes = tables.SIZES_SMALL + [ref.MIB]
    for n in list(sizes) + [s_ for s_ in (8193, 5, 1025, 0, 2) if s_ in sizes]:
        if streamed:
            chs = tables.chunkings(n, full=not quick or n <= 8193)
            if quick and n > 8193:
                chs = chs[:5]
        else:
            chs = [None]
        declareds = ["none", "correct"] if entry in ("open", "open_hash") else ["none"]
        for declared in declareds:
            for ci, chunks in enumerate(chs):
                # the same key is re-written with records of varying length (sizes go up, then down again)
                key = ("k-%s" % entry) if keyed else None
                tag = (n + 3 * ci + len(algo)) % 251
                check_write(ctx, res, srv, cache, flavour, side, entry, key, algo, n, tag, chunks, declared)
                count += 1
                # the address already holds a same-length but damaged file (bit rot): writing the bytes again must
                # leave them readable — whatever the cache contained before
                if ci == 0 and 0 < n <= 8193 and declared == declareds[0]:
                    cp_ = os.path.join(cache, ref.content_rel(ctx.sri(wr.effective_algo(entry, algo), ref.gen(n, tag))))
                    if os.path.isfile(cp_):
                        with open(cp_, "r+b") as fh_:
                            b_ = fh_.read(1)
                            fh_.seek(0)
                            fh_.write(bytes([b_[0] ^ 0x08]))
                        before_v = len(res["violations"])
                        check_write(ctx, res, srv, cache, flavour, side, entry, key, algo, n, tag, chunks, declared)
                        for v_ in res["violations"][before_v:]:
                            v_["sig"] = v_["sig"].replace("write:", "write-over-damaged-copy:", 1)
                # single-call write() loop variant for small streamed inputs
                if streamed and n <= 8193 and ci == 0:
                    check_write(ctx, res, srv, cache, flavour, side, entry, key, algo, n, tag + 1, chunks, declared, write_op="w_write")
                    # ... and through the vectored entry point of Write / AsyncWrite
                    check_write(ctx, res, srv, cache, flavour, side, entry, key, algo, n, tag + 2, chunks, declared, write_op="w_write_all_vectored")
                    # ... and with a flush after every chunk, in two and in three chunks
                    for k_ in (2, 3):
                        if n >= k_:
                            ch_ = [n // k_] * (k_ - 1) + [n - (n // k_) * (k_ - 1)]
                            before_v = len(res["violations"])
                            check_write(ctx, res, srv, cache, flavour, side, entry, key, algo, n, tag + 2 + k_, ch_, declared, flush_each=True)
                            for v_ in res["violations"][before_v:]:
                                v_["sig"] = v_["sig"].replace("write:", "write-with-flushes:", 1)
                if count % 400 == 0:
                    fsutil.wipe(cache)
    # the same key re-written with explicit entry times that go DOWN (and up again): what is read back is the data of the
    # latest write, whatever the times say
    if entry in ("open",):
        key = "k-times-%s" % entry
        for j, t_ in enumerate((5000, 10, 0, 2 ** 64 + 1, 7)):
            before_v = len(res["violations"])
            check_write(ctx, res, srv, cache, flavour, side, entry, key, algo, 5 + j, 210 + j, [5 + j], "none", opts_extra={"time": str(t_)})
            for v_ in res["violations"][before_v:]:
                v_["sig"] = v_["sig"].replace("write:", "rewrite-with-explicit-time:", 1)
    # a value the key has held before comes back: A, B, A and A, remove, A (no options at all: the plainest calls)
    if keyed:
        key = "k-back-%s" % entry
        for seq in (("A", "B", "A"), ("A", "remove", "A", "remove", "B", "A")):
            for j, what in enumerate(seq):
                if what == "remove":
                    srv.call({"op": "remove_sync" if side == "s" else "remove", "cache": cache, "key": key})
                    continue
                before_v = len(res["violations"])
                check_write(ctx, res, srv, cache, flavour, side, entry, key, algo, 6 if what == "A" else 7, 220 if what == "A" else 221, [3, 3] if what == "A" and streamed else ([7] if streamed else None), "none")
                for v_ in res["violations"][before_v:]:
                    v_["sig"] = v_["sig"].replace("write:", "value-written-again:", 1)
    # write, clear through the library, write the very same data again (same process, same digest directories)
    for n in (5, 1025):
        key = ("k-%s" % entry) if keyed else None
        check_write(ctx, res, srv, cache, flavour, side, entry, key, algo, n, 201, [n] if streamed else None, "none")
        rep_ = srv.call({"op": "clear_sync" if side == "s" else "clear", "cache": cache})
        before_v = len(res["violations"])
        check_write(ctx, res, srv, cache, flavour, side, entry, key, algo, n, 201, [n] if streamed else None, "none")
        for v_ in res["violations"][before_v:]:
            v_["sig"] = v_["sig"].replace("write:", "write-after-clear:", 1)
    fsutil.wipe(cache)
    res["samples"].append({"kind": "data", "flavour": flavour, "side": side, "entry": entry, "algo": algo, "sizes": sizes[:4] + ["..."],
                           "example_chunking": tables.chunkings(5)[:3]})
    return res


def main(tier, seed=0):
    jobs = make_jobs(tier)
    return run_check(PROP, tier, jobs, worker, level="exploration",
                     rule="one case = (write entry point, sync/async side, flavour build, algorithm, data size, chunking, declared size, key, "
                          "write_all vs single write calls); distinct = distinct tuples; every case is non-trivial: it performs a real write "
                          "and reads it back through every read entry point of the build",
                     technique="bounded-exhaustive input enumeration against the real API with an independent digest/byte oracle",
                     assumptions=["healthy tmpfs file system", "xxh3 reference digest comes from the xxhash-rust crate called directly"],
                     seed=seed, timeout=20.0)
