"""C10 — listing yields exactly the live entries, once each, agreeing with lookup.

Explicit-state BFS over writes / removals / re-writes on three keys (timestamps deliberately not
monotone in append order), from the empty cache and from reference-written seeds with several records
per key and tombstones first / in the middle / last; in every distinct state the items of list_sync are
compared with the model and with metadata* of every key.
"""
import os
import time

from vlib import ref, run, seqx, tables
from checks.c09 import merge

PROP = "C10"

VALUES = {
    "v1": {"n": 3, "tag": 5, "time": 3000},
    "v2": {"n": 9, "tag": 6, "time": 10, "metadata": ["x", {"y": 1}], "raw_metadata": b"\x01"},
    "v1b": {"n": 3, "tag": 5, "time": 77, "metadata": {"same-bytes-as": "v1"}},   # same content as v1, other time/metadata
}


class C10Spec(seqx.Spec):
    prop = PROP
    sig_prefix = "ls"
    values = VALUES

    def __init__(self, flavour, depth, sides):
        self.flavour = flavour
        self.depth = depth
        self.keys = list(tables.key_family())
        self.sides = sides

    def actions(self, state):
        out = []
        for k in self.keys:
            for v in ("v1", "v2"):
                for side in self.sides:
                    out.append({"t": "W", "key": k, "val": v, "side": side, "how": "session"})
        for k in self.keys[:2]:
            out.append({"t": "W", "key": k, "val": "v1b", "side": self.sides[-1], "how": "session"})
        for k in self.keys:
            for side in self.sides:
                out.append({"t": "R", "key": k, "side": side})
        return out


def seeds(keys):
    a, b, c = keys
    d = {v: ref.gen(VALUES[v]["n"], VALUES[v]["tag"]) for v in VALUES}
    s = {v: ref.sri("sha256", d[v]) for v in VALUES}

    def rec(key, v):
        return {"key": key, "integrity": s[v], "time": VALUES[v]["time"], "size": VALUES[v]["n"], "metadata": VALUES[v].get("metadata"),
                "raw_metadata": VALUES[v].get("raw_metadata")}

    def tomb(key, t):
        return {"key": key, "integrity": None, "time": t, "size": 0, "metadata": None, "raw_metadata": None}

    E = ref.encode_record
    snap = {
        ref.bucket_rel(a): ("f", E(tomb(a, 10 ** 13)) + E(rec(a, "v1")) + E(rec(a, "v2")) + E(rec("foreign", "v1"))),
        ref.bucket_rel(b): ("f", E(rec(b, "v1")) + E(tomb(b, 1)) + E(rec(b, "v2"), 1)),
        ref.bucket_rel(c): ("f", E(rec(c, "v1")) + E(rec(c, "v2")) + E(tomb(c, 2 ** 100))),
        ref.content_rel(s["v1"]): ("f", d["v1"]),
        ref.content_rel(s["v2"]): ("f", d["v2"]),
    }
    for rel in list(snap):
        p = os.path.dirname(rel)
        while p:
            snap[p] = ("d",)
            p = os.path.dirname(p)
    m = seqx.new_model()
    m.content[s["v1"]] = d["v1"]
    m.content[s["v2"]] = d["v2"]
    for k in (a, b):
        m.insert(k, s["v2"], size=9, time=10, metadata=VALUES["v2"]["metadata"], raw_metadata=VALUES["v2"]["raw_metadata"])
    m.foreign[("foreign", a)] = rec("foreign", "v1")
    return [("empty", None, seqx.new_model()), ("ref-written: tombstone first/middle/last + foreign record", snap, m)]


def main(tier, seed=0):
    t0 = time.time()
    if tier == "quick":
        runs = [C10Spec("astd", 3, ("s", "a")), C10Spec("sync", 4, ("s",))]
    else:
        runs = [C10Spec("astd", 5, ("s", "a")), C10Spec("sync", 6, ("s",)), C10Spec("tok", 4, ("s", "a"))]
    total = None
    merr_all = []
    capped_any = False
    for spec in runs:
        agg, merr, capped, wall = seqx.bfs(spec, tier, seeds=seeds(spec.keys), level="model_checking", rule="", technique="", finish=False,
                                           budget_s=200 if tier == "quick" else 2400)
        merr_all += merr
        capped_any |= capped
        total = merge(total, agg, "%s-depth%d" % (spec.flavour, spec.depth))
    return run.finish(PROP, tier, total, merr_all, time.time() - t0, level="model_checking",
                      rule="state = (canonical on-disk cache, model); alphabet = {write v1(time 3000)/v2(time 10) under a/b/c, remove a/b/c} x {sync, async}; "
                           "seeds: empty and a reference-written cache with 3+ records per key and tombstones first/middle/last; in every distinct state "
                           "list_sync is compared item by item with the model (no duplicates, no phantoms, no missing key, every field equal) and with metadata*",
                      technique="explicit-state breadth-first model checking of the real implementation (on-disk states), oracle = dictionary model",
                      assumptions=["an index-less cache lists as one NotFound error item (pinned by the repository's own test)"],
                      seed=seed, capped=capped_any, jobs_done=len(runs), jobs_total=len(runs), exhaustive=not capped_any)
