"""C10 — listing yields exactly the live entries, once each, agreeing with lookup.

Explicit-state BFS over writes / removals / re-writes on three keys (timestamps deliberately not
monotone in append order), from the empty cache and from reference-written seeds with several records
per key and tombstones first / in the middle / last; in every distinct state the items of list_sync are
compared with the model and with metadata* of every key.
"""
import os
import time

from vlib import ref, run, seqx, tables
from checks.c09 import merge
from vlib.run import V

PROP = "C10"

VALUES = {
    "v1": {"n": 3, "tag": 5, "time": 3000},
    "v2": {"n": 9, "tag": 6, "time": 10, "metadata": ["x", {"y": 1}], "raw_metadata": b"\x01"},
    "v1c": {"n": 3, "tag": 9, "time": 3001},   # other bytes, index record of exactly the same length as v1's
    "v1b": {"n": 3, "tag": 5, "time": 77, "metadata": {"same-bytes-as": "v1"}},   # same content as v1, other time/metadata
}


class C10Spec(seqx.Spec):
    prop = PROP
    sig_prefix = "ls"
    values = VALUES

    def __init__(self, flavour, depth, sides):
        self.flavour = flavour
        self.depth = depth
        self.keys = list(tables.key_family())
        self.sides = sides

    def actions(self, state):
        out = []
        for k in self.keys:
            for v in ("v1", "v2"):
                for side in self.sides:
                    out.append({"t": "W", "key": k, "val": v, "side": side, "how": "session"})
        for k in self.keys[:2]:
            out.append({"t": "W", "key": k, "val": "v1b", "side": self.sides[-1], "how": "session"})
        out.append({"t": "W", "key": self.keys[0], "val": "v1c", "side": self.sides[0], "how": "session"})
        out.append({"t": "RF", "key": self.keys[0], "side": self.sides[0]})
        # a second key removed fully (it may share its content file with the first) and the content removed by address
        # before / after: the listing must drop exactly the keys a lookup no longer finds
        out.append({"t": "RF", "key": self.keys[1], "side": self.sides[-1]})
        out.append({"t": "RH", "val": "v1", "side": self.sides[0]})
        out.append({"t": "CL", "side": self.sides[-1]})
        for k in self.keys:
            for side in self.sides:
                out.append({"t": "R", "key": k, "side": side})
        return out


def seeds(keys):
    a, b, c = keys
    d = {v: ref.gen(VALUES[v]["n"], VALUES[v]["tag"]) for v in VALUES}
    s = {v: ref.sri("sha256", d[v]) for v in VALUES}

    def rec(key, v):
        return {"key": key, "integrity": s[v], "time": VALUES[v]["time"], "size": VALUES[v]["n"], "metadata": VALUES[v].get("metadata"),
                "raw_metadata": VALUES[v].get("raw_metadata")}

    def tomb(key, t):
        return {"key": key, "integrity": None, "time": t, "size": 0, "metadata": None, "raw_metadata": None}

    E = ref.encode_record
    snap = {
        # (a torn record - what an interrupted append leaves - sits between two records of a: both readers skip it)
        ref.bucket_rel(a): ("f", E(tomb(a, 10 ** 13)) + E(rec(a, "v1")) + E(rec(a, "v1"))[:41] + E(rec(a, "v2")) + E(rec("foreign", "v1"))),
        # (b's newest record carries a parseable but unusable integrity - a one-byte digest: it counts for nobody, neither
        # for the lookups nor for the listing, so b reads as v2 everywhere)
        ref.bucket_rel(b): ("f", E(rec(b, "v1")) + E(tomb(b, 1)) + E(rec(b, "v2"), 1) +
                            E({"key": b, "integrity": "sha256-YQ==", "time": 77, "size": 1, "metadata": None, "raw_metadata": None})),
        ref.bucket_rel(c): ("f", E(rec(c, "v1")) + E(rec(c, "v2")) + E(tomb(c, 2 ** 100))),
        ref.content_rel(s["v1"]): ("f", d["v1"]),
        ref.content_rel(s["v2"]): ("f", d["v2"]),
    }
    for rel in list(snap):
        p = os.path.dirname(rel)
        while p:
            snap[p] = ("d",)
            p = os.path.dirname(p)
    m = seqx.new_model()
    m.content[s["v1"]] = d["v1"]
    m.content[s["v2"]] = d["v2"]
    for k in (a, b):
        m.insert(k, s["v2"], size=9, time=10, metadata=VALUES["v2"]["metadata"], raw_metadata=VALUES["v2"]["raw_metadata"])
    m.foreign[("foreign", a)] = rec("foreign", "v1")
    return [("empty", None, seqx.new_model()), ("ref-written: tombstone first/middle/last + foreign record", snap, m)]


def long_bucket_worker(ctx, job):
    """A key re-written many times with records of several KiB (bucket file grows to tens of KiB), interleaved with
    removals: after every step list_sync must agree with lookup, entry for entry."""
    from vlib import fsutil, wr
    from vlib.model import check_listing
    from vlib.run import classify
    res = V.new()
    flavour = job["flavour"]
    srv = ctx.srv(flavour)
    cache = ctx.fresh("c10l-")
    model = seqx.new_model()
    a, b, c = tables.key_family()
    hist = []
    for i in range(job["steps"]):
        key = a if i % 4 != 3 else b
        side = "s" if (i % 2 == 0 or flavour == "sync") else "a"
        if i % 7 == 5:
            rep = srv.call({"op": "remove_sync" if side == "s" else "remove", "cache": cache, "key": key})
            model.remove(key)
            hist.append("R(%s)" % key)
        else:
            meta = {"blob": "x" * (job["meta_bytes"] + 37 * i), "i": i}
            raw = bytes(range(256)) * (1 + i % 3)
            n = 3 + i
            opts = {"time": str(1000 - i), "metadata": meta, "raw_metadata": raw.hex()}
            rep, _ = wr.do_write(srv, cache, side=side, entry="open", key=key, algo="sha256", n=n, tag=i, opts=opts)
            data = ref.gen(n, i)
            model.write(key, ctx.sri("sha256", data), data, size=n, time=1000 - i, metadata=meta, raw_metadata=raw)
            hist.append("W(%s,%dB metadata)" % (key, len(meta["blob"])))
        res["evals"] += 1
        res["transitions"] += 1
        res["distinct"].add(V.h("long", flavour, i))
        replay = {"engine": "seqx", "mode": "long-bucket", "flavour": flavour, "history": list(hist)}
        if "ok" not in rep:
            V.violation(res, "ls:long-bucket:step-%s" % classify(rep), "step %s failed: %r" % (hist[-1], rep), replay)
            break
        lst = srv.call({"op": "list_sync", "cache": cache})
        bads = []
        check_listing(lambda what, sig, extra: bads.append((sig, what)), lst, model, cache)
        if bads:
            V.violation(res, "ls:long-bucket:%s" % bads[0][0], "after %d steps (bucket of %d bytes): %s" % (
                i + 1, os.path.getsize(os.path.join(cache, ref.bucket_rel(a))), bads[0][1][:300]), replay)
            break
        for k in (a, b):
            m_ = srv.call({"op": "metadata_sync", "cache": cache, "key": k})
            from vlib.model import entry_matches, entry_of_reply
            if "ok" not in m_ or not entry_matches(entry_of_reply(m_["ok"]), model.index.get(k), k):
                V.violation(res, "ls:long-bucket:lookup-differs", "metadata_sync(%r) disagrees with the model after %s" % (k, hist[-1]), replay)
        V.outcome(res, "long-bucket-step-ok")
    res["extra"]["long_bucket_final_bytes"] = os.path.getsize(os.path.join(cache, ref.bucket_rel(a))) if os.path.exists(os.path.join(cache, ref.bucket_rel(a))) else 0
    fsutil.wipe(cache)
    res["samples"].append({"kind": "long-bucket", "flavour": flavour, "steps": job["steps"], "history_tail": hist[-3:]})
    return res


def main(tier, seed=0):
    t0 = time.time()
    if tier == "quick":
        runs = [C10Spec("astd", 3, ("s", "a")), C10Spec("sync", 4, ("s",))]
    else:
        runs = [C10Spec("astd", 5, ("s", "a")), C10Spec("sync", 6, ("s",)), C10Spec("tok", 4, ("s", "a"))]
    import checks.c16 as c16
    old = c16.worker
    c16.worker = long_bucket_worker
    try:
        lb_jobs = [{"flavour": f, "steps": 24 if tier == "quick" else 60, "meta_bytes": mb} for f in ("sync", "astd", "tok") for mb in (900, 6000)]
        total, merr_all = c16._collect(tier, lb_jobs, seed)
    finally:
        c16.worker = old
    total["extra"] = {"runs": {}, "long_bucket_jobs": len(lb_jobs)}
    total["distinct"] = set(total["distinct"])
    capped_any = False
    for spec in runs:
        agg, merr, capped, wall = seqx.bfs(spec, tier, seeds=seeds(spec.keys), level="model_checking", rule="", technique="", finish=False,
                                           budget_s=200 if tier == "quick" else 2400)
        merr_all += merr
        capped_any |= capped
        total = merge(total, agg, "%s-depth%d" % (spec.flavour, spec.depth))
    return run.finish(PROP, tier, total, merr_all, time.time() - t0, level="model_checking",
                      rule="state = (canonical on-disk cache, model); alphabet = {write v1(time 3000)/v2(time 10) under a/b/c, remove a/b/c} x {sync, async}; "
                           "seeds: empty and a reference-written cache with 3+ records per key and tombstones first/middle/last; in every distinct state "
                           "list_sync is compared item by item with the model (no duplicates, no phantoms, no missing key, every field equal) and with metadata*",
                      technique="explicit-state breadth-first model checking of the real implementation (on-disk states), oracle = dictionary model",
                      assumptions=["an index-less cache lists as one NotFound error item (pinned by the repository's own test)"],
                      seed=seed, capped=capped_any, jobs_done=len(runs), jobs_total=len(runs), exhaustive=not capped_any)
