"""C13 — a failing file-system operation surfaces as an error and never corrupts the cache.

fsx fault mode: for every operation x flavour, every file-system system call the operation makes is made to fail
with each applicable errno (EIO, ENOSPC, EACCES, EMFILE), and every write is answered short and then failed;
thorough: all ordered pairs of faults. Per execution: the call must return (no panic/hang/death); an Ok reply must
be truthful; bystander entries intact; content area holds only files matching their address; the index decodes
to the old or the new state of the operated key; the same call without faults then succeeds.
"""
import json
import os
import time

from vlib import fsutil, fsx, ref, seqx, tables, wr
from vlib.model import check_listing, entry_matches, entry_of_reply, observe_and_check
from vlib.run import V, classify
from checks.c03 import _acc, content_check

PROP = "C13"
OLD = {"n": 9, "tag": 91}
NEW = {"n": 21, "tag": 92}
BY1 = {"n": 4, "tag": 93}
BY2 = {"n": 13, "tag": 94}
TARGET = "target-ключ-é"

OPS = ["write", "write_existing_content", "write_hash", "writer_session", "writer_session_mmap", "read", "read_hash", "stream", "copy", "copy_hash", "hard_link", "metadata", "list",
       "remove", "remove_hash", "remove_fully", "clear", "exists", "link_to", "link_to_hash",
       "writer_rejected_short", "writer_rejected_overflow", "writer_rejected_empty", "writer_session_retrying"]
REJECTED = ("writer_rejected_short", "writer_rejected_overflow", "writer_rejected_empty")   # a clean run of these ends with SizeMismatch (memory-mapped temp file cut / left)
WRITES = ("write", "write_existing_content", "write_hash", "writer_session", "writer_session_mmap", "writer_session_retrying", "remove", "remove_hash", "remove_fully", "link_to", "link_to_hash")


def sri(v):
    return ref.sri("sha256", ref.gen(v["n"], v["tag"]))


def target_of(dest):
    """The file outside the cache that link_to* points at (holds the NEW bytes), next to the extraction destination."""
    return os.path.join(os.path.dirname(dest), "link-target")


def program(op, cache, dest, side):
    s = side == "s"
    suf = "_sync" if s else ""
    g = {"gen": [NEW["n"], NEW["tag"]]}
    if op == "write":
        return [{"op": "write" + suf, "cache": cache, "key": TARGET, "data": g}]
    if op == "write_existing_content":
        # a second key for bytes that are already stored (and referenced by the target key)
        return [{"op": "write" + suf, "cache": cache, "key": "second-key", "data": {"gen": [OLD["n"], OLD["tag"]]}}]
    if op == "write_hash":
        return [{"op": "write_hash" + suf, "cache": cache, "data": g}]
    if op in ("writer_session", "writer_session_mmap"):
        opts = {"time": "77"}
        if op.endswith("mmap"):
            opts["size"] = NEW["n"]
        h = {"ref": 0}
        return [{"op": ("sw_" if s else "aw_") + "open", "cache": cache, "key": TARGET, "opts": opts},
                {"op": "w_write_all", "h": h, "data": {"gen": [NEW["n"], NEW["tag"], 0, 10]}},
                {"op": "w_write_all", "h": h, "data": {"gen": [NEW["n"], NEW["tag"], 10, NEW["n"] - 10]}}, {"op": "w_commit", "h": h}]
    if op == "writer_session_retrying":
        # a caller that offers the unaccepted bytes again after a short or failed write() on the same handle, then commits
        h = {"ref": 0}
        return [{"op": ("sw_" if s else "aw_") + "open", "cache": cache, "key": TARGET, "opts": {"time": "77"}},
                {"op": "w_write_all_retrying", "h": h, "data": {"gen": [NEW["n"], NEW["tag"]]}}, {"op": "w_commit", "h": h}]
    if op in REJECTED:
        # declared size (memory-mapped temp file) that the writer misses: fewer bytes / more bytes in a later chunk
        opts = {"time": "78", "size": NEW["n"] + 5 if op.endswith("short") else NEW["n"] - 4}
        h = {"ref": 0}
        if op.endswith("empty"):
            # nothing at all is delivered for a declared size of 5
            return [{"op": ("sw_" if s else "aw_") + "open", "cache": cache, **({"key": TARGET} if s else {}), "opts": {"time": "78", "size": 5}}, {"op": "w_commit", "h": h}]
        # (the async keyed writer never maps its temp file; the async by-address writer does)
        return [{"op": ("sw_" if s else "aw_") + "open", "cache": cache, **({"key": TARGET} if s else {}), "opts": opts},
                {"op": "w_write_all", "h": h, "data": {"gen": [NEW["n"], NEW["tag"], 0, 10]}},
                {"op": "w_write_all", "h": h, "data": {"gen": [NEW["n"], NEW["tag"], 10, NEW["n"] - 10]}}, {"op": "w_commit", "h": h}]
    if op == "read":
        return [{"op": "read" + suf, "cache": cache, "key": TARGET}]
    if op == "read_hash":
        return [{"op": "read_hash" + suf, "cache": cache, "sri": sri(OLD)}]
    if op == "stream":
        return [{"op": ("sr_" if s else "ar_") + "open", "cache": cache, "key": TARGET}, {"op": "r_stream", "h": {"ref": 0}, "n": 4}]
    if op == "copy":
        return [{"op": "copy" + suf, "cache": cache, "key": TARGET, "to": dest}]
    if op == "copy_hash":
        return [{"op": "copy_hash" + suf, "cache": cache, "sri": sri(OLD), "to": dest}]
    if op == "hard_link":
        return [{"op": "hard_link" + suf, "cache": cache, "key": TARGET, "to": dest}]
    if op == "metadata":
        return [{"op": "metadata" + suf, "cache": cache, "key": TARGET}]
    if op == "exists":
        return [{"op": "exists" + suf, "cache": cache, "sri": sri(OLD)}]
    if op == "list":
        return [{"op": "list_sync", "cache": cache}]
    if op == "remove":
        return [{"op": "remove" + suf, "cache": cache, "key": TARGET}]
    if op == "remove_hash":
        return [{"op": "remove_hash" + suf, "cache": cache, "sri": sri(OLD)}]
    if op == "remove_fully":
        return [{"op": "remove_opts" + suf, "cache": cache, "key": TARGET, "fully": True}]
    if op == "clear":
        return [{"op": "clear" + suf, "cache": cache}]
    if op == "link_to":
        return [{"op": "link_to" + suf, "cache": cache, "key": TARGET, "target": target_of(dest)}]
    if op == "link_to_hash":
        return [{"op": "link_to_hash" + suf, "cache": cache, "target": target_of(dest)}]
    raise ValueError(op)


def build_init(ctx, cache):
    fsutil.wipe(cache)
    srv = ctx.srv("sync")
    m = seqx.new_model()
    for key, v, t in ((TARGET, OLD, 11), ("bystander-1", BY1, 12), ("bystander-2", BY2, 13)):
        rep, _ = wr.do_write(srv, cache, side="s", entry="open", key=key, algo="sha256", n=v["n"], tag=v["tag"], opts={"time": str(t)})
        assert "ok" in rep, rep
        d = ref.gen(v["n"], v["tag"])
        m.write(key, sri(v), d, size=v["n"], time=t)
    return fsutil.snapshot(cache), m


def new_models(op, old, window):
    """Candidate post-states when the operation took (full or partial) effect."""
    d = ref.gen(NEW["n"], NEW["tag"])
    out = []
    if op in ("write", "writer_session", "writer_session_mmap", "writer_session_retrying", "link_to"):
        mid = old.clone()
        mid.content[sri(NEW)] = d
        new = old.clone()
        new.write(TARGET, sri(NEW), d, size=NEW["n"], time=window if op in ("write", "link_to") else 77)
        out = [mid, new]
    elif op == "write_existing_content":
        new = old.clone()
        new.write("second-key", sri(OLD), ref.gen(OLD["n"], OLD["tag"]), size=OLD["n"], time=window)
        out = [new]
    elif op == "writer_rejected_empty":
        mid = old.clone()
        mid.content[ref.sri("sha256", b"")] = b""
        out = [mid]
    elif op in REJECTED:
        mid = old.clone()
        mid.content[sri(NEW)] = d      # the bytes of a rejected commit may or may not stay retrievable by address
        out = [mid]
    elif op in ("write_hash", "link_to_hash"):
        new = old.clone()
        new.content[sri(NEW)] = d
        out = [new]
    elif op == "remove":
        new = old.clone()
        new.remove(TARGET)
        out = [new]
    elif op == "remove_hash":
        new = old.clone()
        new.remove_hash(sri(OLD))
        out = [new]
    elif op == "remove_fully":
        mid = old.clone()
        mid.remove_hash(sri(OLD))
        new = old.clone()
        new.remove_fully(TARGET)
        out = [mid, new]
    return out


def final_model(op, old, window):
    c = new_models(op, old, window)
    if op == "clear":
        m = seqx.new_model()
        return m
    return c[-1] if c else old


def truthful(op, reply_seq, model_before, cands_after, dest, cache):
    """Is an Ok reply truthful? Returns None if fine, else a description."""
    last = reply_seq[-1]
    d_old = ref.gen(OLD["n"], OLD["tag"])
    if op in ("read", "read_hash"):
        if not wr.data_matches(last["ok"], d_old):
            return "read returned wrong bytes"
    elif op == "stream":
        if not wr.data_matches(last["ok"]["data"], d_old):
            return "streamed read delivered wrong bytes"
    elif op in ("copy", "copy_hash", "hard_link"):
        try:
            with open(dest, "rb") as fh:
                b = fh.read()
        except OSError:
            b = None
        if b != d_old:
            return "extraction reported success but the destination holds %s" % ("nothing" if b is None else "%d other bytes" % len(b))
        if op != "hard_link" and last["ok"] != OLD["n"]:
            return "copy returned count %r" % last["ok"]
    elif op == "metadata":
        if not entry_matches(entry_of_reply(last["ok"]), model_before.index.get(TARGET), TARGET):
            return "metadata returned %r, which is not the stored entry" % (last["ok"],)
    elif op == "exists":
        pass  # exists() returns a bare bool: an I/O error is indistinguishable from absence by API design
    elif op == "list":
        items = last["ok"]
        errs = [i for i in items if "err" in i]
        if errs:
            for i in items:
                if "ok" in i:
                    e = entry_of_reply(i["ok"])
                    if not entry_matches(e, model_before.index.get(e["key"]), e["key"]):
                        return "listing item %r is not a stored entry" % (i["ok"],)
        else:
            bads = []
            check_listing(lambda what, sig, extra: bads.append(what), last, model_before, cache)
            if bads:
                return "listing without error items is not the stored set: %s" % bads[0]
    return None


def _mk_target(dest):
    with open(target_of(dest), "wb") as fh:
        fh.write(ref.gen(NEW["n"], NEW["tag"]))


def _links_resolved(snap, dest):
    """link_to* publishes a symbolic link at the content address: for the content invariant it stands for the bytes it leads to."""
    out = {}
    for rel, e in (snap or {}).items():
        if e[0] == "l" and rel == ref.content_rel(sri(NEW)) and e[1] == target_of(dest):
            out[rel] = ("f", ref.gen(NEW["n"], NEW["tag"]))
        else:
            out[rel] = e
    return out


def worker(ctx, job):
    res = V.new()
    sc = job["sc"]
    op, flavour = sc["op"], sc["flavour"]
    side = "s" if flavour == "sync" else "a"
    cache = ctx.path("c13-cache")
    destdir = ctx.path("c13-dest")
    dest = os.path.join(destdir, "out")
    store = ctx.__dict__.setdefault("_c13", None)
    if store is None:
        store = ctx.__dict__["_c13"] = build_init(ctx, cache)
    init_snap, old = store
    keys_ = [TARGET, "bystander-1", "bystander-2", "second-key"]
    addrs = [sri(OLD), sri(NEW), sri(BY1), sri(BY2)]

    def run_one(faults):
        fsutil.restore(cache, init_snap)
        fsutil.wipe(destdir)
        os.makedirs(destdir)
        _mk_target(dest)
        pf = ctx.path("prog-c13.json")
        with open(pf, "w") as fh:
            json.dump(program(op, cache, dest, side), fh)
        spec = {"roots": [cache, destdir], "actors": [fsx.actor(flavour, "F", pf)], "timeout_ms": 15000, "faults": faults}
        t0 = int(time.time() * 1000) - 2
        rep = fsx.run(spec, ctx.dir)
        return rep, (t0, int(time.time() * 1000) + 2)

    _raw_run_one = run_one

    def run_one(faults):
        out_ = _raw_run_one(faults)
        if out_[0].get("status") == "timeout":
            out_ = _raw_run_one(faults)
            out_[0]["retried_after_timeout"] = True
        return out_

    if job["kind"] == "probe":
        rep, window = run_one([])
        res["evals"] += 1
        out = fsx.replies(rep, 0)
        replay = {"engine": "fsx", "mode": "fault", "scenario": sc, "faults": []}
        clean_ok = bool(out) and (("ok" in out[-1]) if op not in REJECTED else out[-1].get("err", {}).get("variant") == "SizeMismatch")
        if rep["status"] != "ok" or not clean_ok:
            V.violation(res, "fault:%s/%s:clean-run-%s" % (op, flavour, classify(out[-1]) if out else rep["status"]), "fault-free run did not end as expected: %r" % (out[-1:] or rep.get("error")), replay)
        res["probe"] = {"sc": sc, "steps": [{"sys": s["sys"], "len": s["len"], "flags": s["flags"], "index": "/index-v5/" in (s.get("fd_path") or "")} for s in rep["steps"] if s.get("step") is not None],
                        "trace": fsx.sys_trace(rep, [cache, destdir])}
        return res

    for faults in job["faultsets"]:
        rep, window = run_one(faults)
        res["evals"] += 1
        fdesc = "+".join("%s@%d:%s" % (f.get("sysname", "?"), f["step"], fsx.ERRNO_NAMES.get(f.get("errno"), "short%s" % f.get("short")) + ("-then-EIO" if f.get("then_errno") else "")) for f in faults)
        fclass = "+".join("%s:%s" % (f.get("sysname", "?"), fsx.ERRNO_NAMES.get(f.get("errno"), "short") + ("-then-fail" if f.get("then_errno") else "")) for f in faults)
        replay = {"engine": "fsx", "mode": "fault", "scenario": sc, "faults": faults}
        res["distinct"].add(V.h(op, flavour, fdesc))
        sigp = "fault:%s/%s:%s" % (op, flavour, fclass)
        injected = any(s.get("note") == "fault-injected" for s in rep["steps"]) or any(f.get("short") is not None for f in faults)
        if job.get("trace") and rep["status"] == "ok":
            res["extra"]["prefix_checked_steps"] = res["extra"].get("prefix_checked_steps", 0) + fsx.assert_same_prefix(
                rep, job["trace"], min(f["step"] for f in faults) + 1, [cache, destdir], "C13 %s/%s" % (op, flavour))
        if rep["status"] != "ok":
            V.violation(res, sigp + ":" + rep["status"], "operation under fault %s did not terminate (%s)" % (fdesc, rep["status"]), replay)
            continue
        out = fsx.replies(rep, 0)
        exitst = rep["actors"][0]["exit"]
        if exitst != {"code": 0} or not out:
            V.violation(res, sigp + ":process-died", "actor died (%r) under fault %s" % (exitst, fdesc), replay)
            continue
        bad = [r for r in out if not ("ok" in r or "err" in r) or r.get("panics")]
        if bad:
            V.violation(res, sigp + ":" + classify(bad[0]), "call under fault %s did not return a value: %r" % (fdesc, bad[0]), replay)
            continue
        last = out[-1]
        V.outcome(res, "%s:%s" % ("faulted" if injected else "fault-not-reached", "ok" if "ok" in last else "err"))
        snap = fsutil.snapshot(cache)
        if op.startswith("link_to"):
            snap = _links_resolved(snap, dest)
        content_check(ctx, res, snap, {"entry": "fault-" + op, "flavour": flavour, "n": NEW["n"]}, "after fault %s" % fdesc, replay)
        # state: old or one of the new candidates
        cands_new = new_models(op, old, window)
        if op == "clear":
            pass  # every entry is the operated object: only validity of what is left is checked
        else:
            cands = [old] + cands_new
            if "ok" in last and op in REJECTED:
                V.violation(res, sigp + ":rejected-commit-succeeded", "after fault %s a commit that misses its declared size returned %r" % (fdesc, last), replay)
                continue
            if "ok" in last and op in WRITES:
                cands = cands_new[-1:]   # success must be truthful: the full effect is there
            okc = None
            diffs = []
            for m in cands:
                scratch = V.new()
                observe_and_check(ctx, scratch, ctx.srv("sync"), "sync", cache, m, keys_, addrs, sig_prefix="x", replay={})
                res["transitions"] += scratch["transitions"]
                if not scratch["violations"]:
                    okc = m
                    break
                diffs.append(scratch["violations"])
            if okc is None:
                v = min(diffs, key=len)[0]
                kind = "untruthful-success" if "ok" in last else "corrupted-state"
                V.violation(res, "%s:%s:%s" % (sigp, kind, v["sig"][2:]), "after fault %s the call replied %s and the cache is in no admissible state: %s" % (fdesc, classify(last), v["what"]), replay)
                continue
        if "ok" in last:
            why = truthful(op, out, old, cands_new, dest, cache)
            if why:
                V.violation(res, sigp + ":untruthful-success", "fault %s: %s" % (fdesc, why), replay)
                continue
        # once the fault is gone the same call succeeds
        srv = ctx.srv(flavour)
        fsutil.wipe(destdir)
        os.makedirs(destdir)
        _mk_target(dest)
        prog = program(op, cache, dest, side)
        reps = []
        for req in prog:
            if isinstance(req.get("h"), dict):
                req = dict(req)
                req["h"] = reps[req["h"]["ref"]].get("ok", {}).get("h") if "ok" in reps[0] else None
            reps.append(srv.call(req))
        res["transitions"] += len(reps)
        t_end = int(time.time() * 1000) + 2
        tolerated = False
        if op in REJECTED:
            if reps[-1].get("err", {}).get("variant") != "SizeMismatch":
                V.violation(res, sigp + ":retry:" + classify(reps[-1]), "after fault %s the same call without faults gives %r instead of SizeMismatch" % (fdesc, reps[-1]), replay)
                continue
            ok_any = False
            for fm_ in [old] + new_models(op, old, window):
                scratch = V.new()
                observe_and_check(ctx, scratch, ctx.srv("sync"), "sync", cache, fm_, keys_, addrs, sig_prefix="x", replay={})
                ok_any = ok_any or not scratch["violations"]
            if not ok_any:
                V.violation(res, "%s:retry-state" % sigp, "after fault %s and the retried (rejected) commit the cache is in no admissible state" % fdesc, replay)
            continue
        if "ok" not in reps[-1]:
            # legitimate when the faulted call took partial effect and the call is then about something gone
            if op == "remove_hash" and "ok" not in last:
                tolerated = False
            V.violation(res, sigp + ":retry-fails:" + classify(reps[-1]), "after fault %s (reply %s) the same call without faults fails: %r" % (fdesc, classify(last), reps[-1]), replay)
            continue
        fm = final_model(op, old, (window[0], t_end))
        if op == "write_hash":
            pass
        scratch = V.new()
        observe_and_check(ctx, scratch, ctx.srv("sync"), "sync", cache, fm, keys_, addrs, sig_prefix="x", replay={})
        if scratch["violations"]:
            v = scratch["violations"][0]
            V.violation(res, "%s:retry-state:%s" % (sigp, v["sig"][2:]), "after fault %s and a successful retry: %s" % (fdesc, v["what"]), replay)
    if job["faultsets"]:
        res["samples"].append({"op": op, "flavour": flavour, "faults": job["faultsets"][len(job["faultsets"]) // 2]})
    return res


def fault_sets(steps, pairs):
    singles = []
    for i, s in enumerate(steps):
        for e in fsx.applicable_errnos(s):
            singles.append({"step": i, "errno": e, "sysname": s["sys"]})
        if s["sys"] in ("write", "pwrite64") and s["len"] > 1:
            # the append of an index record: every byte length (cuts inside multi-byte characters included)
            lens = range(1, s["len"]) if (s.get("index") and s["len"] <= 600) else fsx.short_lengths(s["len"])
            for t in lens:
                singles.append({"step": i, "short": t, "then_errno": fsx.EIO, "sysname": s["sys"]})
    out = [[f] for f in singles]
    if pairs:
        for a in singles:
            for b in singles:
                if b["step"] > a["step"] and a.get("errno") in (fsx.EIO, fsx.ENOSPC, None) and b.get("errno") in (fsx.EIO, fsx.ENOSPC, None) \
                        and a.get("short", 1) in (1, None) and (b.get("short") is None or b["short"] in fsx.short_lengths(10 ** 9) or b["short"] == 1):
                    out.append([a, b])
    return out


def main(tier, seed=0):
    import multiprocessing as mp
    from vlib import run as R
    t0 = time.time()
    flavours = ("sync", "astd", "tok")
    scs = [{"op": op, "flavour": fl, "id": i * 3 + j} for i, op in enumerate(OPS) for j, fl in enumerate(flavours)]
    counter = mp.Value("i", 0)
    pool = mp.Pool(R.NPROC, initializer=R._init, initargs=(R.base_dir(), counter, tier, seed, 20.0, worker))
    agg = V.new()
    merr = []
    nsets = 0
    try:
        probes = []
        for r in pool.imap_unordered(R._work, [{"kind": "probe", "sc": sc} for sc in scs], chunksize=1):
            if "machinery_error" in r:
                merr.append(r["machinery_error"])
                continue
            _acc(agg, r)
            probes.append(r["probe"])
        jobs = []
        for pr in probes:
            fs = fault_sets(pr["steps"], pairs=tier != "quick")
            nsets += len(fs)
            for i in range(0, len(fs), 20):
                jobs.append({"kind": "fault", "sc": pr["sc"], "faultsets": fs[i:i + 20], "trace": pr.get("trace")})
        for r in pool.imap_unordered(R._work, jobs, chunksize=1):
            if "machinery_error" in r:
                merr.append(r["machinery_error"])
                continue
            _acc(agg, r)
    finally:
        pool.terminate()
        pool.join()
    agg["extra"].update({"operations": OPS, "flavours": list(flavours), "fault_sets": nsets, "pairs": tier != "quick",
                    "steps_per_op": {"%s/%s" % (p["sc"]["op"], p["sc"]["flavour"]): len(p["steps"]) for p in probes}})
    return R.finish(PROP, tier, agg, merr, time.time() - t0, level="fault_enumeration",
                    rule="case = (operation, flavour, set of injected faults); single faults: every file-system system call of the operation x every applicable errno "
                         "(EIO everywhere, ENOSPC on creating/extending calls, EACCES on path calls, EMFILE on opens) and every write answered short then failed; thorough: all "
                         "ordered pairs of EIO/ENOSPC/short faults; distinct = distinct (operation, flavour, fault set)",
                    technique="exhaustive single (thorough: pairwise) fault injection at the system-call boundary of the real process (ptrace: syscall suppressed, -errno returned)",
                    assumptions=["the %d operations (link_to and link_to_hash included) run on a warm cache" % len(OPS) + " with the operated key present and two bystander entries", "exists() returns a bare bool: an I/O error cannot be told from absence by API design (not judged)",
                                 "after clear under a fault only the validity of what is left is judged"],
                    seed=seed, capped=False, jobs_done=len(scs), jobs_total=len(scs), exhaustive=True)
