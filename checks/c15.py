"""C15 — effects stay inside the cache directory; keys are opaque; reads do not mutate.

fsx monitor mode over an exhaustive operation x hostile-key table: every path-taking or descriptor-writing
system call the real process issues during the call is recorded with its resolved path. Oracle: every mutating
call targets the cache root or the explicit extraction destination; every path touched under the root is an
existing path or follows the layout with SHA-1(key) / digest computed independently (keys influence paths only
through their hash); read-only calls issue no mutating call at all and leave the scratch parent unchanged.
Opaqueness of confusable keys is checked by C02's key jobs (both values read back intact) and re-checked here.
"""
import json
import os
import re
import time

from vlib import fsutil, fsx, ref, tables, wr
from vlib.run import V, classify
from checks.c03 import _acc

PROP = "C15"
OLD = {"n": 7, "tag": 101}
NEW = {"n": 12, "tag": 102}
O_ACCMODE, O_CREAT, O_TRUNC, O_APPEND = 3, 0o100, 0o1000, 0o2000

MUTATING_SYS = {"mkdir", "mkdirat", "rename", "renameat", "renameat2", "unlink", "unlinkat", "rmdir", "link", "linkat", "symlink", "symlinkat", "truncate",
                "ftruncate", "fallocate", "chmod", "fchmodat", "fchmod", "chown", "fchownat", "utimensat", "mknod", "mknodat", "creat", "write", "pwrite64", "writev",
                "copy_file_range", "sendfile", "ioctl"}
READ_ONLY_OPS = {"read", "read_hash", "metadata", "exists", "list", "index_find", "index_ls", "stream", "stream_hash"}


def sri(v):
    return ref.sri("sha256", ref.gen(v["n"], v["tag"]))


def is_mutating(call):
    s = call["sys"]
    if s in ("open", "openat", "openat2"):
        fl = call.get("flags", -1)
        if fl is None or fl < 0:
            return s == "openat2"  # flags live in a struct we do not decode: be conservative
        return (fl & O_ACCMODE) != 0 or (fl & (O_CREAT | O_TRUNC | O_APPEND)) != 0
    if s == "mmap":
        fl = call.get("flags", 0)
        prot, mflags = fl >> 32, fl & 0xffffffff
        return (mflags & 0x01) != 0 and (prot & 0x2) != 0  # MAP_SHARED and PROT_WRITE
    return s in MUTATING_SYS


def targets(call):
    """Paths a mutating call can change."""
    s = call["sys"]
    if s in ("copy_file_range", "sendfile"):
        return []  # destination descriptor is not arg 0: judged through the write side of open()
    if call["paths"]:
        return list(call["paths"])
    return [call["fd_path"]] if call.get("fd_path") else []


def programs(op, side, cache, key, dest, target):
    s = side == "s"
    suf = "_sync" if s else ""
    g = {"gen": [NEW["n"], NEW["tag"]]}
    pre_w = "sw_" if s else "aw_"
    pre_r = "sr_" if s else "ar_"
    h = {"ref": 0}
    table = {
        "write": [{"op": "write" + suf, "cache": cache, "key": key, "data": g}],
        "write_with_algo": [{"op": ("write_sync_with_algo" if s else "write_with_algo"), "algo": "sha1", "cache": cache, "key": key, "data": g}],
        "write_hash": [{"op": "write_hash" + suf, "cache": cache, "data": g}],
        # the bytes that are already stored (OLD), put once more
        "write_same": [{"op": "write" + suf, "cache": cache, "key": key, "data": {"gen": [OLD["n"], OLD["tag"]]}}],
        "write_hash_same": [{"op": "write_hash" + suf, "cache": cache, "data": {"gen": [OLD["n"], OLD["tag"]]}}],
        "writer_same": [{"op": pre_w + "open", "cache": cache, "key": key, "opts": {}}, {"op": "w_write_all", "h": h, "data": {"gen": [OLD["n"], OLD["tag"]]}}, {"op": "w_commit", "h": h}],
        "writer": [{"op": pre_w + "open", "cache": cache, "key": key, "opts": {"size": NEW["n"], "metadata": {"k": key[:20]}}}, {"op": "w_write_all", "h": h, "data": g}, {"op": "w_commit", "h": h}],
        "writer_dropped": [{"op": pre_w + "open", "cache": cache, "key": key, "opts": {}}, {"op": "w_write_all", "h": h, "data": g}, {"op": "w_drop", "h": h}],
        "writer_create": [{"op": pre_w + "create", "cache": cache, "key": key}, {"op": "w_write_all", "h": h, "data": g}, {"op": "w_commit", "h": h}],
        "read": [{"op": "read" + suf, "cache": cache, "key": key}],
        "read_hash": [{"op": "read_hash" + suf, "cache": cache, "sri": sri(OLD)}],
        "stream": [{"op": pre_r + "open", "cache": cache, "key": key}, {"op": "r_stream", "h": h, "n": 5}],
        "stream_hash": [{"op": pre_r + "open_hash", "cache": cache, "sri": sri(OLD)}, {"op": "r_stream", "h": h, "n": 5}],
        "metadata": [{"op": "metadata" + suf, "cache": cache, "key": key}],
        "exists": [{"op": "exists" + suf, "cache": cache, "sri": sri(OLD)}],
        "list": [{"op": "list_sync", "cache": cache}],
        "index_ls": [{"op": "index_ls", "cache": cache}],
        "index_find": [{"op": "index_find" if s else "index_find_async", "cache": cache, "key": key}],
        "index_insert": [{"op": "index_insert" if s else "index_insert_async", "cache": cache, "key": key, "opts": {"integrity": sri(NEW), "time": "5", "size": 12}}],
        "index_delete": [{"op": "index_delete" if s else "index_delete_async", "cache": cache, "key": key}],
        "copy": [{"op": "copy" + suf, "cache": cache, "key": key, "to": dest}],
        "copy_unchecked": [{"op": "copy_unchecked" + suf, "cache": cache, "key": key, "to": dest}],
        "copy_hash": [{"op": "copy_hash" + suf, "cache": cache, "sri": sri(OLD), "to": dest}],
        "copy_hash_unchecked": [{"op": "copy_hash_unchecked" + suf, "cache": cache, "sri": sri(OLD), "to": dest}],
        "hard_link": [{"op": "hard_link" + suf, "cache": cache, "key": key, "to": dest}],
        "reflink": [{"op": "reflink" + suf, "cache": cache, "key": key, "to": dest}],
        "reflink_unchecked": [{"op": "reflink_unchecked" + suf, "cache": cache, "key": key, "to": dest}],
        "reflink_hash": [{"op": "reflink_hash" + suf, "cache": cache, "sri": sri(OLD), "to": dest}],
        "remove": [{"op": "remove" + suf, "cache": cache, "key": key}],
        "remove_hash": [{"op": "remove_hash" + suf, "cache": cache, "sri": sri(OLD)}],
        "remove_fully": [{"op": "remove_opts" + suf, "cache": cache, "key": key, "fully": True}],
        "clear": [{"op": "clear" + suf, "cache": cache}],
        "link_to": [{"op": "link_to" + suf, "cache": cache, "key": key, "target": target}],
        "link_to_hash": [{"op": "link_to_hash" + suf, "cache": cache, "target": target}],
    }
    if s:
        table.update({
            "hard_link_unchecked": [{"op": "hard_link_unchecked_sync", "cache": cache, "key": key, "to": dest}],
            "hard_link_hash": [{"op": "hard_link_hash_sync", "cache": cache, "sri": sri(OLD), "to": dest}],
            "hard_link_hash_unchecked": [{"op": "hard_link_hash_unchecked_sync", "cache": cache, "sri": sri(OLD), "to": dest}],
            "reflink_hash_unchecked": [{"op": "reflink_hash_unchecked_sync", "cache": cache, "sri": sri(OLD), "to": dest}],
        })
    return table.get(op)


KEYED = ["write_same", "writer_same", "write", "write_with_algo", "writer", "writer_dropped", "writer_create", "read", "stream", "metadata", "index_find", "index_insert", "index_delete", "copy",
         "copy_unchecked", "hard_link", "hard_link_unchecked", "reflink", "reflink_unchecked", "remove", "remove_fully", "link_to"]
UNKEYED = ["write_hash_same", "write_hash", "read_hash", "stream_hash", "exists", "list", "index_ls", "copy_hash", "copy_hash_unchecked", "hard_link_hash", "hard_link_hash_unchecked",
           "reflink_hash", "reflink_hash_unchecked", "remove_hash", "clear", "link_to_hash"]
EXTRACT = {"copy", "copy_unchecked", "copy_hash", "copy_hash_unchecked", "hard_link", "hard_link_unchecked", "hard_link_hash", "hard_link_hash_unchecked", "reflink",
           "reflink_unchecked", "reflink_hash", "reflink_hash_unchecked"}


def _modes(d):
    out = {}
    for name in (os.listdir(d) if os.path.isdir(d) else []):
        try:
            out[name] = os.lstat(os.path.join(d, name)).st_mode & 0o7777
        except OSError:
            pass
    return out


def worker(ctx, job):
    res = V.new()
    flavour, side, rootform, temp = job["flavour"], job["side"], job["rootform"], job["temp"]
    parent = ctx.fresh("c15-")
    os.makedirs(parent)
    real_cache = os.path.join(parent, "cache-dir")
    outside = os.path.join(parent, "outside")
    os.makedirs(outside)
    target = os.path.join(outside, "link-target")
    with open(target, "wb") as fh:
        fh.write(ref.gen(OLD["n"], OLD["tag"]))
    dest = os.path.join(outside, "dest")
    cwd = parent
    if rootform == "abs":
        cache_arg = real_cache
    elif rootform == "rel":
        cache_arg = "cache-dir"
    else:
        os.symlink("cache-dir", os.path.join(parent, "cache-link"))
        cache_arg = os.path.join(parent, "cache-link")
    roots = [real_cache, os.path.join(parent, "cache-link")]
    srv = ctx.srv("sync")
    for op in job["ops"]:
        keys = job["keys"] if op in KEYED else [None]
        for key in keys:
            dest = os.path.join(outside, "dest") if job.get("dest_exists") != "missing-parent" else os.path.join(outside, "no-such-dir", "sub", "dest")
            prog = programs(op, side, cache_arg, key if key is not None else "unused", dest, target)
            if prog is None:
                continue
            # prepare the cache
            fsutil.wipe(real_cache)
            fsutil.wipe(dest)
            expected_keys = ["bystander"]
            if temp == "dangling-link":
                # an earlier link of the same bytes whose target has since been deleted
                old_target = os.path.join(outside, "old-link-target")
                with open(old_target, "wb") as fh:
                    fh.write(ref.gen(OLD["n"], OLD["tag"]))
                srv.call({"op": "link_to_sync", "cache": real_cache, "key": "earlier-link", "target": old_target})
                os.unlink(old_target)
            if temp == "tmp-blocked":
                # a healthy cache whose tmp/ has been replaced by a regular file: every writer has to fail inside the root
                wr.do_write(srv, real_cache, side="s", entry="oneshot", key="bystander", n=3, tag=1)
                fsutil.wipe(os.path.join(real_cache, "tmp"))
                with open(os.path.join(real_cache, "tmp"), "wb") as fh:
                    fh.write(b"not a directory")
            if temp == "index-only":
                # a cache that holds nothing but raw index entries (public index::insert)
                srv.call({"op": "index_insert", "cache": real_cache, "key": key if key is not None else "only", "opts": {"integrity": sri(OLD), "time": "1", "size": 7}})
            if temp in ("warm", "damaged-content", "truncated-content", "readonly-extracted", "extracted-and-edited"):
                wr.do_write(srv, real_cache, side="s", entry="oneshot", key="bystander", n=3, tag=1)
                wr.do_write(srv, real_cache, side="s", entry="hash", n=OLD["n"], tag=OLD["tag"])
                if key is not None:
                    wr.do_write(srv, real_cache, side="s", entry="oneshot", key=key, n=OLD["n"], tag=OLD["tag"])
                if temp in ("damaged-content", "truncated-content"):
                    # the stored bytes no longer match their address: a failing check is still a read, not a repair or an eviction
                    cp_ = os.path.join(real_cache, ref.content_rel(sri(OLD)))
                    with open(cp_, "r+b") as fh:
                        if temp == "damaged-content":
                            b_ = fh.read(1)
                            fh.seek(0)
                            fh.write(bytes([b_[0] ^ 0x20]))
                        else:
                            fh.truncate(OLD["n"] - 2)
            if op in EXTRACT and temp == "warm" and job.get("dest_exists"):
                # the destination already exists: as an earlier extraction of the same entry (a hard link to the same
                # content) or as an unrelated file
                cpath_ = os.path.join(real_cache, ref.content_rel(sri(OLD)))
                if job["dest_exists"] == "missing-parent":
                    pass    # (the destination path is redirected below: nothing may be created on the way to it)
                elif job["dest_exists"] == "directory":
                    os.makedirs(dest)      # the destination names an existing directory: nothing may appear in it, beside it or elsewhere
                elif job["dest_exists"] == "same-content-link" and os.path.isfile(cpath_):
                    os.link(cpath_, dest)
                else:
                    with open(dest, "wb") as fh:
                        fh.write(b"an unrelated file")
            if temp == "readonly-extracted":
                # an earlier extraction by hard link, write-protected by its owner afterwards (same inode as the content file)
                cp_ = os.path.join(real_cache, ref.content_rel(sri(OLD)))
                ex_ = os.path.join(outside, "extracted-earlier")
                if os.path.lexists(ex_):
                    os.chmod(ex_, 0o644)
                    os.unlink(ex_)
                if os.path.isfile(cp_):
                    os.link(cp_, ex_)
                    os.chmod(ex_, 0o444)
            if temp == "extracted-and-edited":
                # an earlier extraction by hard link that its owner has appended to since (the content file shares the inode)
                cp_ = os.path.join(real_cache, ref.content_rel(sri(OLD)))
                ex_ = os.path.join(outside, "extracted-and-edited")
                if os.path.lexists(ex_):
                    os.unlink(ex_)
                if os.path.isfile(cp_):
                    os.link(cp_, ex_)
                    with open(ex_, "ab") as fh:
                        fh.write(b" -- the owner's own edit")
            if temp == "link-to-readonly-target":
                ro_ = os.path.join(outside, "read-only-target")
                if not os.path.exists(ro_):
                    with open(ro_, "wb") as fh:
                        fh.write(ref.gen(OLD["n"], OLD["tag"]))
                    os.chmod(ro_, 0o444)
                srv.call({"op": "link_to_sync", "cache": real_cache, "key": key if key is not None else "linked", "target": ro_})
            init = fsutil.snapshot(real_cache)
            before_outside = fsutil.snapshot(outside)
            modes_before = _modes(outside)
            pf = ctx.path("prog-c15.json")
            with open(pf, "w") as fh:
                json.dump(prog, fh)
            spec = {"roots": roots, "actors": [fsx.actor(flavour, "M", pf, cwd=cwd)], "monitor": True, "timeout_ms": 15000}
            modes_box = {"m": modes_before}

            def _once():
                fsutil.restore(real_cache, init)
                if init is None:
                    fsutil.wipe(real_cache)
                # restoring re-creates the files: an outside file that is meant to SHARE the content file's inode is linked anew
                if temp in ("readonly-extracted", "extracted-and-edited"):
                    cp2 = os.path.join(real_cache, ref.content_rel(sri(OLD)))
                    ex2 = os.path.join(outside, "extracted-earlier" if temp == "readonly-extracted" else "extracted-and-edited")
                    if os.path.lexists(ex2):
                        os.chmod(ex2, 0o644)
                        os.unlink(ex2)
                    if os.path.isfile(cp2):
                        os.link(cp2, ex2)
                        if temp == "readonly-extracted":
                            os.chmod(ex2, 0o444)
                    modes_box["m"] = _modes(outside)     # (restoring does not keep permission bits: the reference is taken now)
                return fsx.run(spec, ctx.dir)
            rep = fsx.confirmed(_once)
            res["evals"] += 1
            res["distinct"].add(V.h(flavour, side, rootform, temp, op, key))
            case = {"flavour": flavour, "side": side, "root": rootform, "cache_state": temp, "op": op, "key": key}
            replay = {"engine": "fsx", "mode": "monitor", "case": case}
            if rep["status"] != "ok":
                V.violation(res, "monitor:%s/%s:%s" % (op, side, rep["status"]), "execution status %s" % rep["status"], replay)
                continue
            out = fsx.replies(rep, 0)
            V.outcome(res, "%s:%s" % ("ro" if op in READ_ONLY_OPS else "rw", "ok" if out and "ok" in out[-1] else "err"))
            if any(not ("ok" in r or "err" in r) or r.get("panics") for r in out):
                V.violation(res, "monitor:%s/%s:%s" % (op, side, classify(out[-1])), "call did not return a value: %r" % out[-1], replay)
            allowed_new = {"tmp"}
            if key is not None:
                allowed_new.add(ref.bucket_rel(key))
            for s_ in (sri(OLD), sri(NEW), ref.sri("sha1", ref.gen(NEW["n"], NEW["tag"]))):
                allowed_new.add(ref.content_rel(s_))
            anc = {ref.INDEX_DIR, ref.CONTENT_DIR, "tmp"}  # the three documented top-level directories
            for p in allowed_new:
                q = p
                while q:
                    anc.add(q)
                    q = os.path.dirname(q)
            existing = set(init or {})
            calls = rep["steps"]
            res["transitions"] += len(calls)
            nmut = 0
            for c in calls:
                mut = is_mutating(c)
                tg = targets(c)
                if mut:
                    nmut += 1
                for p in tg:
                    rel = None
                    for r in roots:
                        if p == r:
                            rel = ""
                        elif p.startswith(r + "/"):
                            rel = p[len(r) + 1:]
                    if rel is None:
                        if mut:
                            if op in EXTRACT and p == dest:
                                continue
                            if p in ("/dev/null", "/dev/tty") or p.startswith("/proc/") or p.startswith("/dev/pts/"):
                                continue
                            V.violation(res, "monitor:%s/%s:mutation-outside-root:%s" % (op, side, c["sys"]),
                                        "%s (mutating) on %s, outside the cache root %s" % (c["sys"], p, real_cache), dict(replay, call=c))
                        continue
                    # inside the root: layout grammar with independently computed names
                    if rel == "":
                        # the root itself may be created (mkdir -p) and read, but never removed or renamed:
                        # that changes the directory the cache lives in
                        if mut and c["sys"] in ("rmdir", "unlink", "unlinkat", "rename", "renameat", "renameat2"):
                            V.violation(res, "monitor:%s/%s:cache-root-removed:%s" % (op, side, c["sys"]), "%s removes or renames the cache root itself" % c["sys"], dict(replay, call=c))
                        continue
                    if rel in existing or rel in anc:
                        continue
                    if re.match(r"^tmp/\.tmp[A-Za-z0-9]{6}$", rel):
                        continue
                    V.violation(res, "monitor:%s/%s:path-not-derived-from-hash:%s" % (op, side, c["sys"]),
                                "%s touches %r under the root, which is neither an existing path nor derived from SHA-1(key)/digest (key %r)" % (c["sys"], rel, key),
                                dict(replay, call=c))
            if op in READ_ONLY_OPS:
                if nmut:
                    first = [c for c in calls if is_mutating(c)][0]
                    V.violation(res, "monitor:%s/%s:read-only-call-mutates:%s" % (op, side, first["sys"]),
                                "read-only operation issued a mutating call: %s %s flags=%s" % (first["sys"], targets(first), first.get("flags")), dict(replay, call=first))
                after = fsutil.snapshot(real_cache)
                if fsutil.canon(after) != fsutil.canon(init):
                    V.violation(res, "monitor:%s/%s:read-only-call-changed-tree" % (op, side), "cache tree differs after a read-only call", replay)
            elif op in EXTRACT:
                # extractions write their destination only: the cache tree is read
                after = fsutil.snapshot(real_cache)
                if fsutil.canon(after) != fsutil.canon(init):
                    V.violation(res, "monitor:%s/%s:extraction-changed-cache-tree" % (op, side), "cache tree differs after an extraction (cache state %s)" % temp, replay)
            after_out = fsutil.snapshot(outside)
            if after_out is not None:
                after_out.pop("dest", None)
            b2 = dict(before_outside or {})
            b2.pop("dest", None)
            if after_out != b2:
                V.violation(res, "monitor:%s/%s:outside-changed" % (op, side), "directory outside the cache changed: %s -> %s" % (sorted(b2), sorted(after_out or {})), replay)
            modes_before = modes_box["m"]
            modes_after = _modes(outside)
            changed = sorted(k for k in modes_before if k in modes_after and modes_after[k] != modes_before[k] and k != "dest")
            if changed:
                V.violation(res, "monitor:%s/%s:outside-file-mode-changed" % (op, side), "permission bits of files outside the cache changed: %s" % [(k, oct(modes_before[k]), oct(modes_after[k])) for k in changed], replay)
            tgt_now = open(target, "rb").read() if os.path.exists(target) else None
            if tgt_now != ref.gen(OLD["n"], OLD["tag"]):
                V.violation(res, "monitor:%s/%s:link-target-modified" % (op, side), "link target was modified", replay)
    fsutil.wipe(parent)
    res["samples"].append({"flavour": flavour, "side": side, "root": rootform, "cache_state": temp, "ops": job["ops"][:5], "keys": [k[:30] for k in job["keys"][:5]]})
    return res


def main(tier, seed=0):
    import multiprocessing as mp
    from vlib import run as R
    t0 = time.time()
    quick = tier == "quick"
    keys = [k for k in tables.KEYS_HOSTILE if len(k) < 5000]
    if quick:
        keys = keys[::2] + keys[1::4]
    jobs = []
    for flavour, side in (("sync", "s"), ("astd", "a"), ("tok", "a")):
        for temp in ("cold", "warm"):
            for rootform in (("abs",) if quick else ("abs", "rel", "symlink")):
                for i in range(0, len(KEYED), 4):
                    jobs.append({"flavour": flavour, "side": side, "temp": temp, "rootform": rootform, "ops": KEYED[i:i + 4], "keys": keys})
                jobs.append({"flavour": flavour, "side": side, "temp": temp, "rootform": rootform, "ops": UNKEYED, "keys": []})
        jobs.append({"flavour": flavour, "side": side, "temp": "index-only", "rootform": "abs", "ops": ["remove_fully", "remove", "index_delete", "read", "metadata", "writer"], "keys": keys[:6]})
        jobs.append({"flavour": flavour, "side": side, "temp": "index-only", "rootform": "abs", "ops": ["list", "clear", "index_ls"], "keys": []})
        for de in ("same-content-link", "other-file"):
            jobs.append({"flavour": flavour, "side": side, "temp": "warm", "rootform": "abs", "ops": sorted(EXTRACT), "keys": keys[:2], "dest_exists": de})
        pathy = [k for k in tables.KEYS_HOSTILE if ("/" in k or ".." in k) and len(k) < 200][:6]
        jobs.append({"flavour": flavour, "side": side, "temp": "warm", "rootform": "abs", "ops": sorted(EXTRACT), "keys": pathy, "dest_exists": "directory"})
        jobs.append({"flavour": flavour, "side": side, "temp": "warm", "rootform": "abs", "ops": sorted(EXTRACT), "keys": keys[:2], "dest_exists": "missing-parent"})
        jobs.append({"flavour": flavour, "side": side, "temp": "index-only", "rootform": "abs", "ops": sorted(EXTRACT), "keys": keys[:2], "dest_exists": "missing-parent"})
        jobs.append({"flavour": flavour, "side": side, "temp": "tmp-blocked", "rootform": "abs", "ops": ["write", "write_with_algo", "writer", "writer_dropped", "writer_create", "link_to"], "keys": keys[:3]})
        jobs.append({"flavour": flavour, "side": side, "temp": "tmp-blocked", "rootform": "abs", "ops": ["write_hash", "link_to_hash", "list", "read_hash"], "keys": []})
        for dmg in ("damaged-content", "truncated-content"):
            jobs.append({"flavour": flavour, "side": side, "temp": dmg, "rootform": "abs", "ops": ["read", "stream", "metadata", "copy", "copy_unchecked", "hard_link", "reflink"], "keys": keys[:2]})
            jobs.append({"flavour": flavour, "side": side, "temp": dmg, "rootform": "abs", "ops": ["read_hash", "stream_hash", "exists", "list", "copy_hash", "hard_link_hash", "reflink_hash"], "keys": []})
        jobs.append({"flavour": flavour, "side": side, "temp": "extracted-and-edited", "rootform": "abs", "ops": ["write_same", "writer_same", "read", "copy", "remove_fully"], "keys": keys[:2]})
        jobs.append({"flavour": flavour, "side": side, "temp": "extracted-and-edited", "rootform": "abs", "ops": ["write_hash_same", "read_hash", "remove_hash", "clear"], "keys": []})
        for st_ in ("readonly-extracted", "link-to-readonly-target"):
            jobs.append({"flavour": flavour, "side": side, "temp": st_, "rootform": "abs", "ops": ["remove", "remove_fully", "write", "read", "copy", "hard_link"], "keys": keys[:2]})
            jobs.append({"flavour": flavour, "side": side, "temp": st_, "rootform": "abs", "ops": ["remove_hash", "clear", "write_hash", "read_hash", "exists", "list"], "keys": []})
        jobs.append({"flavour": flavour, "side": side, "temp": "dangling-link", "rootform": "abs", "ops": ["link_to", "write", "read"], "keys": keys[:2]})
        jobs.append({"flavour": flavour, "side": side, "temp": "dangling-link", "rootform": "abs", "ops": ["link_to_hash", "write_hash", "read_hash", "exists"], "keys": []})
    if quick:
        jobs.append({"flavour": "sync", "side": "s", "temp": "warm", "rootform": "rel", "ops": KEYED[:6] + UNKEYED, "keys": keys[:4]})
        jobs.append({"flavour": "astd", "side": "a", "temp": "warm", "rootform": "symlink", "ops": KEYED[:6] + UNKEYED, "keys": keys[:4]})
        jobs.append({"flavour": "sync", "side": "s", "temp": "warm", "rootform": "symlink", "ops": ["clear", "remove_hash", "remove_fully", "remove", "write", "list", "copy"], "keys": keys[:2]})
        jobs.append({"flavour": "astd", "side": "a", "temp": "warm", "rootform": "rel", "ops": ["clear", "remove_hash", "remove_fully", "remove", "write", "list", "copy"], "keys": keys[:2]})
    counter = mp.Value("i", 0)
    pool = mp.Pool(R.NPROC, initializer=R._init, initargs=(R.base_dir(), counter, tier, seed, 20.0, worker))
    agg = V.new()
    merr = []
    try:
        for r in pool.imap_unordered(R._work, jobs, chunksize=1):
            if "machinery_error" in r:
                merr.append(r["machinery_error"])
                continue
            _acc(agg, r)
    finally:
        pool.terminate()
        pool.join()
    agg["extra"] = {"operations": len(KEYED) + len(UNKEYED), "keys": len(keys), "root_forms": ["abs"] if quick else ["abs", "rel", "symlink"]}
    return R.finish(PROP, tier, agg, merr, time.time() - t0, level="exploration",
                    rule="case = (flavour, operation, hostile key, cache root form [absolute/relative/symlinked], cold/warm/index-only/tmp-blocked/dangling-link/damaged-content/truncated-content cache); one evaluation = one real process "
                         "monitored at every path-taking or descriptor-writing system call between its begin and end markers; distinct = distinct tuples",
                    technique="exhaustive operation x key enumeration with complete system-call effect monitoring under ptrace (fsx monitor mode)",
                    assumptions=["path arguments are resolved lexically plus /proc/<tid>/fd and cwd; symlinks inside the cache are not followed by the monitor",
                                 "memory-mapped stores are attributed to the mmap call that set up the mapping"],
                    seed=seed, capped=False, jobs_done=len(jobs), jobs_total=len(jobs), exhaustive=True)
