"""C03 — content files appear atomically: never partial, always matching their address.

Crash enumeration with fsx: the real writer process is killed at the entry of every file-system system call
and, for every write, with the write torn at every byte length (exhaustive up to 4 KiB, boundary values
beyond); after every kill the content area is checked (every file sits at the digest of its bytes) and a fresh
process reads every address of the scenario.
"""
import os

from vlib import fsutil, fsx, ref, wr
from vlib.run import V, classify, run_check

PROP = "C03"
KEY = "crash-key"


def programs(entry, n, tag, algo="sha256"):
    """Request list of one writer actor ('<C>' = cache path)."""
    data = {"gen": [n, tag]}
    if entry == "write_sync":
        return "sync", [{"op": "write_sync_with_algo", "algo": algo, "cache": "<C>", "key": KEY, "data": data}]
    if entry == "write_hash_sync":
        return "sync", [{"op": "write_hash_sync_with_algo", "algo": algo, "cache": "<C>", "data": data}]
    if entry in ("sw_declared_flush", "aw_declared_hash_flush"):
        # a flush in the middle of the stream (legal at any point): declared size met exactly
        side_, prog_ = programs("sw_declared" if entry.startswith("sw_") else "aw_declared_hash", n, tag, algo)
        return side_, prog_[:2] + [{"op": "w_flush", "h": {"ref": 0}}] + prog_[2:]
    if entry in ("sw_declared", "sw_plain", "sw_declared_hash", "sw_declared_short", "sw_declared_over"):
        opts = {"algorithm": algo}
        if entry != "sw_plain":
            # *_short / *_over: the writer misses its declared size (memory-mapped temp file has to be cut back / left);
            # the commit is rejected, and at no kill point may a padded or spliced file sit under a content address
            opts["size"] = n + 7 if entry.endswith("_short") else max(n - 2, 1) if entry.endswith("_over") else n
        req = {"op": "sw_open", "cache": "<C>", "opts": opts}
        if entry != "sw_declared_hash":
            req["key"] = KEY
        h = {"ref": 0}
        half = n // 2
        return "sync", [req, {"op": "w_write_all", "h": h, "data": {"gen": [n, tag, 0, half]}},
                        {"op": "w_write_all", "h": h, "data": {"gen": [n, tag, half, n - half]}}, {"op": "w_commit", "h": h}]
    if entry in ("write", "write_hash"):
        op = "write_with_algo" if entry == "write" else "write_hash_with_algo"
        req = {"op": op, "algo": algo, "cache": "<C>", "data": data}
        if entry == "write":
            req["key"] = KEY
        return "async", [req]
    if entry in ("aw_plain", "aw_declared_hash", "aw_declared_hash_short", "aw_declared_hash_over"):
        opts = {"algorithm": algo}
        req = {"op": "aw_open", "cache": "<C>", "opts": opts}
        if entry == "aw_plain":
            req["key"] = KEY
        else:
            opts["size"] = n + 7 if entry.endswith("_short") else max(n - 2, 1) if entry.endswith("_over") else n
        h = {"ref": 0}
        half = n // 2
        return "async", [req, {"op": "w_write_all", "h": h, "data": {"gen": [n, tag, 0, half]}},
                         {"op": "w_write_all", "h": h, "data": {"gen": [n, tag, half, n - half]}}, {"op": "w_commit", "h": h}]
    raise ValueError(entry)


SYNC_ENTRIES = ["write_sync", "write_hash_sync", "sw_declared", "sw_plain", "sw_declared_hash"]
ASYNC_ENTRIES = ["write", "write_hash", "aw_plain", "aw_declared_hash"]


def scenarios(tier):
    quick = tier == "quick"
    out = []
    sizes = [5, ref.MIB] if quick else [5, 4097, ref.MIB - 1, ref.MIB, ref.MIB + 1]
    inits = ["cold", "warm", "present"]
    for n in sizes:
        for init in inits:
            for e in SYNC_ENTRIES:
                if quick and init == "warm" and e not in ("write_sync", "sw_declared"):
                    continue
                out.append({"entry": e, "flavour": "sync", "n": n, "init": init})
            for fl in (("astd",) if quick else ("astd", "tok")):
                for e in ASYNC_ENTRIES:
                    if quick and (init == "warm" or (e in ("write_hash",) and init != "cold")):
                        continue
                    out.append({"entry": e, "flavour": fl, "n": n, "init": init})
    for n in ((5, 300) if quick else (5, 300, 4097)):
        out.append({"entry": "sw_declared_flush", "flavour": "sync", "n": n, "init": "cold"})
        for fl in (("astd",) if quick else ("astd", "tok")):
            out.append({"entry": "aw_declared_hash_flush", "flavour": fl, "n": n, "init": "cold"})
    for n in ((5, 300) if quick else (5, 300, 4097, ref.MIB - 9)):
        for init in ("cold", "present"):
            for e in ("sw_declared_short", "sw_declared_over"):
                out.append({"entry": e, "flavour": "sync", "n": n, "init": init})
            for fl in (("astd",) if quick else ("astd", "tok")):
                for e in ("aw_declared_hash_short", "aw_declared_hash_over"):
                    out.append({"entry": e, "flavour": fl, "n": n, "init": init})
    if not quick:
        out.append({"entry": "write_sync", "flavour": "sync", "n": 4097, "init": "cold", "algo": "xxh3"})
        out.append({"entry": "sw_declared", "flavour": "sync", "n": 4097, "init": "present", "algo": "sha512"})
    for i, s in enumerate(out):
        s.setdefault("algo", "sha256")
        s["id"] = i
        s["tag"] = 61
    return out


def build_init(ctx, sc, cache):
    """Initial cache of the scenario, made with the library itself."""
    fsutil.wipe(cache)
    srv = ctx.srv("sync")
    if sc["init"] in ("warm", "present"):
        # a bystander entry creates tmp/, content-v2/<algo> and index-v5
        wr.do_write(srv, cache, side="s", entry="oneshot_algo", key="bystander", algo=sc["algo"], n=9, tag=3)
    if sc["init"] == "present":
        wr.do_write(srv, cache, side="s", entry="hash_algo", algo=sc["algo"], n=sc["n"], tag=sc["tag"])
    return fsutil.snapshot(cache)


def subst(prog, cache):
    return json_subst(prog, "<C>", cache)


def json_subst(v, a, b):
    if isinstance(v, str):
        return v.replace(a, b)
    if isinstance(v, list):
        return [json_subst(x, a, b) for x in v]
    if isinstance(v, dict):
        return {k: json_subst(x, a, b) for k, x in v.items()}
    return v


def setup_exec(ctx, sc, cache, init_snap):
    fsutil.restore(cache, init_snap)
    side, prog = programs(sc["entry"], sc["n"], sc["tag"], sc["algo"])
    pf = ctx.path("prog-%s.json" % sc["id"])
    import json
    with open(pf, "w") as fh:
        json.dump(subst(prog, cache), fh)
    spec = {"roots": [cache], "actors": [fsx.actor(sc["flavour"], "W", pf)], "timeout_ms": 20000}
    return spec


def content_check(ctx, res, snap, sc, what, replay):
    bad = False
    for rel, e in (snap or {}).items():
        if not rel.startswith(ref.CONTENT_DIR + "/") or e[0] == "d":
            continue
        if e[0] != "f":
            V.violation(res, "content:%s:non-regular-file" % sc["entry"], "%s: %s is not a regular file" % (what, rel), replay)
            bad = True
            continue
        ok = ref.content_path_ok(rel, e[1], ctx.xxh3)
        if ok is False:
            V.violation(res, "content:%s/%s:%s:file-not-matching-address" % (sc["entry"], sc["flavour"], size_class(sc["n"])),
                        "%s: content file %s holds %d bytes that do not hash to its address" % (what, rel, len(e[1])), replay)
            bad = True
    return not bad


def size_class(n):
    return "n<=1MiB" if n <= ref.MIB else "n>1MiB"


def reads_check(ctx, res, cache, sc, replay):
    """A fresh process: read_hash / exists of the scenario's addresses give the bytes or absence."""
    srv = ctx.srv("sync")
    for n, tag in ((sc["n"], sc["tag"]), (9, 3)):
        data = ref.gen(n, tag)
        sri = ctx.sri(sc["algo"], data)
        ex = srv.call({"op": "exists_sync", "cache": cache, "sri": sri})
        rd = srv.call({"op": "read_hash_sync", "cache": cache, "sri": sri})
        res["transitions"] += 2
        if "ok" in rd:
            if not wr.data_matches(rd["ok"], data):
                V.violation(res, "content:%s:read_hash-wrong-bytes" % sc["entry"], "read_hash after the crash returned other bytes", replay)
        elif rd.get("err", {}).get("variant") == "IntegrityError":
            V.violation(res, "content:%s:read_hash-integrity-error" % sc["entry"], "partial content is visible under its address: %r" % rd, replay)
        elif ex.get("ok") is True and rd.get("err", {}).get("io_kind") != "NotFound":
            V.violation(res, "content:%s:read_hash-%s" % (sc["entry"], classify(rd)), "address exists but read_hash gives %r" % rd, replay)


def crash_points(steps):
    """All crash specs for a clean run's step list."""
    out = []
    for i, s in enumerate(steps):
        out.append({"step": i, "tear": None})
        if s["sys"] in ("write", "pwrite64") and s["len"] > 0:
            for t in fsx.torn_lengths(s["len"]):
                out.append({"step": i, "tear": t})
    return out


def reject_worker(ctx, job):
    """No crash at all: writers that deliver fewer or more bytes than declared (commit rejected) or are
    dropped midway must not leave a file under an address that is not the digest of its bytes."""
    res = V.new()
    flavour, side = job["flavour"], job["side"]
    srv = ctx.srv(flavour)
    cache = ctx.fresh("c03r-")
    sizes = [5, ref.MIB, ref.MIB + 1] if ctx.tier == "quick" else [1, 5, 4097, ref.MIB - 1, ref.MIB, ref.MIB + 1, 2 * ref.MIB + 1]
    for n in sizes:
        for delivered in sorted({0, 1, n // 2, n - 1, n + 1, 2 * n} - {n}):
            for entry in ("open", "open_hash"):
                for parts in (1, 2):
                    for fin in ("commit", "drop"):
                        chunks = [delivered] if parts == 1 or delivered < 2 else [delivered // 2, delivered - delivered // 2]
                        pre = "sw_" if side == "s" else "aw_"
                        req = {"op": pre + "open", "cache": cache, "opts": {"size": n}}
                        if entry == "open":
                            req["key"] = "rk"
                        rep = srv.call(req)
                        res["evals"] += 1
                        res["distinct"].add(V.h(flavour, side, n, delivered, entry, parts, fin))
                        sc = {"entry": "reject-" + entry + "/" + side, "flavour": flavour, "n": n}
                        replay = {"engine": "seqx", "mode": "rejected-writer", "flavour": flavour, "side": side, "declared": n, "delivered": delivered, "chunks": chunks, "entry": entry, "finish": fin}
                        if "ok" not in rep:
                            V.violation(res, "content:reject:%s/%s:open-%s" % (entry, side, classify(rep)), "open failed: %r" % rep, replay)
                            continue
                        h = rep["ok"]["h"]
                        off = 0
                        okw = True
                        for c in chunks:
                            r = srv.call({"op": "w_write_all", "h": h, "data": {"gen": [max(delivered, 1), 17, off, c]}})
                            off += c
                            if "ok" not in r:
                                okw = False
                                V.outcome(res, "write:" + classify(r))
                                if not ("err" in r):
                                    V.violation(res, "content:reject:%s/%s:write-%s" % (entry, side, classify(r)), "write of a chunk: %r" % r, replay)
                                break
                        if "hang" in (r if chunks else {}) or "died" in (r if chunks else {}):
                            continue
                        r = srv.call({"op": "w_commit" if fin == "commit" and okw else "w_drop", "h": h})
                        V.outcome(res, "%s:%s" % (fin, classify(r)))
                        snap = fsutil.snapshot(cache)
                        content_check(ctx, res, snap, sc, "after a %s of %d bytes with declared size %d" % (fin, delivered, n), replay)
                        if any(rel.startswith("tmp/") for rel in (snap or {})):
                            V.violation(res, "content:reject:%s/%s:temp-file-left" % (entry, side), "temp file left behind", replay)
        fsutil.wipe(cache)
    res["samples"].append({"kind": "rejected-writer", "flavour": flavour, "side": side, "sizes": sizes})
    return res


def extract_worker(ctx, job):
    """No crash, no fault: a COPY of an entry is handed out, the caller edits / truncates / appends to its copy, the entry is
    copied again onto the same path. Whatever the caller does with a copy, the file under the content address keeps the
    complete data whose digest is its address (hard links are a different contract: they share the inode by design)."""
    res = V.new()
    flavour, side = job["flavour"], job["side"]
    srv = ctx.srv(flavour)
    suf = "_sync" if side == "s" else ""
    cache = ctx.fresh("c03x-")
    outdir = ctx.fresh("c03xd-")
    os.makedirs(outdir)
    for n in (1, 9, 70000):
        for op in ("copy", "copy_unchecked", "copy_hash", "copy_hash_unchecked"):
            for edit in ("copy-again", "overwrite-start", "truncate", "append", "truncate-then-copy-again"):
                fsutil.wipe(cache)
                dest = os.path.join(outdir, "handed-out")
                fsutil.wipe(dest)
                rep, _ = wr.do_write(srv, cache, side="s", entry="oneshot", key="k", n=n, tag=77)
                sri_ = ctx.sri("sha256", ref.gen(n, 77))
                sc = {"entry": "extract-" + op + "/" + side, "flavour": flavour, "n": n}
                replay = {"engine": "seqx", "mode": "copy handed out and edited", "flavour": flavour, "side": side, "op": op, "n": n, "edit": edit}
                res["evals"] += 1
                res["distinct"].add(V.h("extract", flavour, side, n, op, edit))
                r1 = srv.call({"op": op + suf, "cache": cache, "key": "k", "sri": sri_, "to": dest})
                if "ok" not in r1:
                    V.violation(res, "content:extract:%s/%s:%s" % (op, side, classify(r1)), "copy of an intact entry failed: %r" % r1, replay)
                    continue
                if edit in ("overwrite-start", "truncate", "append", "truncate-then-copy-again"):
                    with open(dest, "r+b") as fh:
                        if edit == "overwrite-start":
                            fh.write(b"\xff")
                        elif edit == "append":
                            fh.seek(0, 2)
                            fh.write(b"tail")
                        else:
                            fh.truncate(0)
                if edit in ("copy-again", "truncate-then-copy-again"):
                    srv.call({"op": op + suf, "cache": cache, "key": "k", "sri": sri_, "to": dest})
                res["transitions"] += 3
                V.outcome(res, "extract:%s" % edit)
                content_check(ctx, res, fsutil.snapshot(cache), sc, "after a copy was handed out and the caller did '%s'" % edit, replay)
                cp = os.path.join(cache, ref.content_rel(sri_))
                try:
                    with open(cp, "rb") as fh:
                        ok_ = fh.read() == ref.gen(n, 77)
                except OSError:
                    ok_ = False
                if not ok_:
                    V.violation(res, "content:extract:%s/%s:content-changed" % (op, side), "after '%s' on a handed-out copy the content file no longer holds the entry" % edit, replay)
    fsutil.wipe(cache)
    fsutil.wipe(outdir)
    res["samples"].append({"kind": "copies handed out and edited", "flavour": flavour, "side": side})
    return res


def faultcrash_worker(ctx, job):
    """One injected failure plus a crash: the publishing rename (or the directory creation before it) fails with an
    errno, and the process is then killed at every later system call, with every later write torn. Whatever error
    handling follows a failed publication must not build the file in place under its address."""
    res = V.new()
    sc = job["sc"]
    cache = ctx.path("c03-cache")
    init_snap = build_init(ctx, sc, cache)
    base = setup_exec(ctx, sc, cache, init_snap)
    rep = fsx.run(base, ctx.dir)
    steps = [s for s in rep["steps"] if s.get("step") is not None]
    targets = [(i, s["sys"]) for i, s in enumerate(steps) if s["sys"] in ("rename", "renameat", "renameat2")]
    for (r, sysname) in targets:
        for errno_ in (18, 5, 28):   # EXDEV, EIO, ENOSPC
            fault = [{"step": r, "errno": errno_}]
            spec = setup_exec(ctx, sc, cache, init_snap)
            spec["faults"] = fault
            rep = fsx.run(spec, ctx.dir)
            res["evals"] += 1
            fsteps = [s for s in rep["steps"] if s.get("step") is not None]
            replay = {"engine": "fsx", "mode": "fault+crash", "scenario": sc, "faults": fault, "crash": None}
            content_check(ctx, res, fsutil.snapshot(cache), sc, "after a failed publication (errno %d)" % errno_, replay)
            cps = [c for c in crash_points([{"sys": s["sys"], "len": s["len"]} for s in fsteps]) if c["step"] > r]
            for cp in cps:
                spec = setup_exec(ctx, sc, cache, init_snap)
                spec["faults"] = fault
                spec["crash"] = cp
                rep = fsx.run(spec, ctx.dir)
                res["evals"] += 1
                res["distinct"].add(V.h("faultcrash", sc["id"], errno_, cp["step"], cp["tear"]))
                V.outcome(res, "fault+crash")
                replay = {"engine": "fsx", "mode": "fault+crash", "scenario": sc, "faults": fault, "crash": cp}
                snap = fsutil.snapshot(cache)
                if content_check(ctx, res, snap, sc, "rename failed with errno %d, then kill at step %s tear %s" % (errno_, cp["step"], cp["tear"]), replay):
                    reads_check(ctx, res, cache, sc, replay)
    fsutil.wipe(cache)
    res["samples"].append({"kind": "fault+crash", "scenario": {k: sc[k] for k in ("entry", "flavour", "n", "init")}, "rename_steps": targets})
    return res


def short_worker(ctx, job):
    """No crash: every write of the writer is answered short once (a legal POSIX answer). A file must never be
    published under an address that is not the digest of its bytes (the driver of C02's short-answer mode is reused,
    only the content-area verdicts are kept)."""
    import checks.c02 as c02
    r = c02.short_worker(ctx, job)
    keep = []
    for v in r["violations"]:
        if "content-file-not-matching-address" in v["sig"]:
            v = dict(v)
            v["sig"] = "content:" + v["sig"]
            keep.append(v)
    r["violations"] = keep
    r["samples"] = [{"kind": "short-answers", "flavour": job["flavour"], "entry": job["entry"], "n": job["n"]}]
    return r


def worker(ctx, job):
    if job["kind"] == "reject":
        return reject_worker(ctx, job)
    if job["kind"] == "short":
        return short_worker(ctx, job)
    if job["kind"] == "faultcrash":
        return faultcrash_worker(ctx, job)
    if job["kind"] == "extract":
        return extract_worker(ctx, job)
    res = V.new()
    sc = job["sc"]
    cache = ctx.path("c03-cache")
    cachekey = "init-%s-%s-%s-%s" % (sc["init"], sc["n"], sc["algo"], sc["tag"])
    store = ctx.__dict__.setdefault("_c03", {})
    if cachekey not in store:
        store.clear()
        store[cachekey] = build_init(ctx, sc, cache)
    init_snap = store[cachekey]
    seen = ctx.__dict__.setdefault("_c03seen", set())
    if job["kind"] == "probe":
        spec = setup_exec(ctx, sc, cache, init_snap)
        rep = fsx.run(spec, ctx.dir)
        res["evals"] += 1
        out = fsx.replies(rep, 0)
        rejected = sc["entry"].endswith(("_short", "_over"))
        clean = bool(out) and (("ok" in out[-1]) if not rejected else out[-1].get("err", {}).get("variant") == "SizeMismatch")
        if rep["status"] != "ok" or not clean:
            V.violation(res, "content:%s/%s:%s:clean-run-%s" % (sc["entry"], sc["flavour"], size_class(sc["n"]), classify(out[-1]) if out else rep["status"]),
                        "uninterrupted write under fsx did not end as expected: %r %r" % (rep["status"], out[-1:] or rep.get("error")),
                        {"engine": "fsx", "mode": "crash", "scenario": sc, "crash": None})
        snap = fsutil.snapshot(cache)
        content_check(ctx, res, snap, sc, "after the complete write", {"engine": "fsx", "mode": "crash", "scenario": sc, "crash": None})
        res["probe"] = {"sc": sc, "steps": [{"sys": s["sys"], "len": s["len"], "path": fsx.norm_path((s["paths"] or [s.get("fd_path")])[0], [cache])} for s in rep["steps"] if s.get("step") is not None],
                        "trace": fsx.sys_trace(rep, [cache])}
        fsutil.wipe(cache)
        return res
    for cp in job["crashes"]:
        spec = setup_exec(ctx, sc, cache, init_snap)
        spec["crash"] = cp
        rep = fsx.run(spec, ctx.dir)
        res["evals"] += 1
        replay = {"engine": "fsx", "mode": "crash", "scenario": sc, "crash": cp}
        if rep["status"] != "ok":
            raise fsx.TracerError("crash run status %s: %s" % (rep["status"], rep.get("error")))
        if job.get("trace"):
            res["extra"]["prefix_checked_steps"] = res["extra"].get("prefix_checked_steps", 0) + fsx.assert_same_prefix(rep, job["trace"], cp["step"], [cache], "C03 %s/%s" % (sc["entry"], sc["flavour"]))
        snap = fsutil.snapshot(cache)
        key = fsutil.canon(snap)
        res["distinct"].add(key)
        V.outcome(res, "killed" if rep.get("crashed") else "ran-to-completion")
        if (sc["id"], key) in seen:
            continue
        seen.add((sc["id"], key))
        res["states"] += 1
        if content_check(ctx, res, snap, sc, "after kill at step %s tear %s" % (cp["step"], cp["tear"]), replay):
            reads_check(ctx, res, cache, sc, replay)
    fsutil.wipe(cache)
    if job["crashes"]:
        res["samples"].append({"scenario": {k: sc[k] for k in ("entry", "flavour", "n", "init", "algo")}, "crash": job["crashes"][len(job["crashes"]) // 2]})
    return res


def main(tier, seed=0):
    import multiprocessing as mp
    import time
    from vlib import run as R
    t0 = time.time()
    scs = scenarios(tier)
    counter = mp.Value("i", 0)
    pool = mp.Pool(R.NPROC, initializer=R._init, initargs=(R.base_dir(), counter, tier, seed, 20.0, worker))
    agg = V.new()
    merr = []
    try:
        probes = []
        for r in pool.imap_unordered(R._work, [{"kind": "probe", "sc": sc} for sc in scs], chunksize=1):
            if "machinery_error" in r:
                merr.append(r["machinery_error"])
                continue
            _acc(agg, r)
            probes.append(r["probe"])
        jobs = []
        total_points = 0
        for pr in probes:
            cps = crash_points(pr["steps"])
            total_points += len(cps)
            chunk = 40
            for i in range(0, len(cps), chunk):
                jobs.append({"kind": "crash", "sc": pr["sc"], "crashes": cps[i:i + chunk], "trace": pr.get("trace")})
        jobs.sort(key=lambda j: (j["sc"]["init"], j["sc"]["n"], j["sc"]["algo"], j["sc"]["id"]))
        jobs = [{"kind": "reject", "flavour": f, "side": sd} for f, sd in (("sync", "s"), ("astd", "a"), ("tok", "a"), ("astd", "s"))] + jobs
        jobs = [{"kind": "short", "flavour": f, "side": sd, "entry": e, "n": 4097} for f, sd in (("sync", "s"), ("astd", "a"), ("tok", "a")) for e in ("oneshot", "hash", "session", "session_declared")] + jobs
        fc = [sc for sc in scs if sc["init"] == "cold" and sc["n"] in (5, 4097) and (tier != "quick" or sc["entry"] in ("write_sync", "sw_declared", "write", "aw_plain"))]
        jobs = [{"kind": "faultcrash", "sc": sc} for sc in fc] + jobs
        jobs = [{"kind": "extract", "flavour": f, "side": sd} for f, sd in (("sync", "s"), ("astd", "a"), ("tok", "a"))] + jobs
        for r in pool.imap_unordered(R._work, jobs, chunksize=1):
            if "machinery_error" in r:
                merr.append(r["machinery_error"])
                continue
            _acc(agg, r)
    finally:
        pool.terminate()
        pool.join()
    agg["extra"].update({"scenarios": len(scs), "crash_points": total_points,
                    "steps_per_scenario": {"%s/%s/n=%d/%s" % (p["sc"]["entry"], p["sc"]["flavour"], p["sc"]["n"], p["sc"]["init"]): len(p["steps"]) for p in probes[:40]}})
    return R.finish(PROP, tier, agg, merr, time.time() - t0, level="fault_enumeration",
                    rule="case = (writer scenario [entry point, flavour, size, cold/warm/address-present], kill point = entry of the k-th file-system system call, "
                         "torn length of that call if it is a write); distinct = distinct resulting directory trees (canonical form)",
                    technique="exhaustive crash-point and torn-write enumeration of the real writer process under a ptrace controller (fsx)",
                    assumptions=["crash = process kill, kernel survives (nothing in the library fsyncs)", "a single write/rename system call is atomic with respect to the kill",
                                 "memory-mapped stores only touch the private temp file between two steps"],
                    seed=seed, capped=False, jobs_done=len(scs), jobs_total=len(scs), exhaustive=True)


def _acc(agg, r):
    agg["evals"] += r["evals"]
    agg["states"] += r["states"]
    agg["transitions"] += r["transitions"]
    agg["distinct"] |= set(r["distinct"])
    agg["violations"] += r["violations"]
    for k, v in r["outcomes"].items():
        agg["outcomes"][k] = agg["outcomes"].get(k, 0) + v
    if len(agg["samples"]) < 5:
        agg["samples"] += r["samples"][:1]
    for k, v in r.get("extra", {}).items():
        if isinstance(v, (int, float)):
            agg["extra"][k] = agg["extra"].get(k, 0) + v
