"""C04 — a keyed write or removal interrupted by a crash is all-or-nothing.

fsx crash mode: the writer/remover process is killed at every file-system system call and with every write torn
at every byte length (the index append is 150-400 bytes: all prefixes). On every distinct crash state a fresh
process observes the key through every lookup entry point: the answer must be exactly the old entry or exactly
the new one (and then its content must be complete), every other key unchanged; then every continuation history
up to a depth bound is explored from that state (later writes must succeed and be visible).
"""
import json
import os
import time

from vlib import fsutil, fsx, ref, seqx, tables, wr
from vlib.model import observe_and_check
from vlib.run import V, classify
from checks.c03 import crash_points, json_subst, _acc

PROP = "C04"

VALUES = {
    "short": {"n": 3, "tag": 71, "time": 100},
    "long": {"n": 40, "tag": 72, "time": 200, "metadata": {"note": "a considerably longer record than the other one", "list": [1, 2, 3]}, "raw_metadata": b"\x01\x02"},
    "multi": {"n": 7, "tag": 73, "time": 300, "metadata": {"ключ": "значение-é-\U0001F600-末", "é": ["ß", "Ω"]}},
    "cont": {"n": 11, "tag": 74, "time": 400, "metadata": "continuation"},
}
MKEY = "ключ-é-\U0001F600"


def keys():
    a, b, c = tables.key_family()
    return a, b


def scenarios(tier):
    a, b = keys()
    base = [
        {"name": "first-write", "init": [], "op": ("W", a, "long")},
        {"name": "first-write-warm", "init": [("W", b, "short")], "op": ("W", a, "short")},
        {"name": "overwrite-longer", "init": [("W", a, "short"), ("W", b, "short")], "op": ("W", a, "long")},
        {"name": "overwrite-shorter", "init": [("W", a, "long"), ("W", b, "long")], "op": ("W", a, "short")},
        {"name": "overwrite-same-content", "init": [("W", a, "long"), ("W", b, "long")], "op": ("W", a, "long")},
        {"name": "remove", "init": [("W", a, "long"), ("W", b, "short")], "op": ("R", a)},
        {"name": "multibyte", "init": [("W", MKEY, "short"), ("W", b, "short")], "op": ("W", MKEY, "multi")},
        {"name": "multibyte-first", "init": [], "op": ("W", MKEY, "multi")},
        {"name": "rewrite-after-remove", "init": [("W", a, "long"), ("R", a)], "op": ("W", a, "short")},
    ]
    flavours = ("sync", "astd") if tier == "quick" else ("sync", "astd", "tok")
    out = []
    for sc in base:
        for fl in flavours:
            if tier == "quick" and fl != "sync" and sc["name"] in ("first-write-warm", "overwrite-same-content", "multibyte-first", "rewrite-after-remove"):
                continue
            s = dict(sc)
            s["flavour"] = fl
            s["id"] = len(out)
            out.append(s)
    return out


def op_program(op, cache, side):
    if op[0] == "R":
        return [{"op": "remove_sync" if side == "s" else "remove", "cache": cache, "key": op[1]}]
    _, key, v = op
    val = VALUES[v]
    opts = {"time": str(val["time"])}
    if "metadata" in val:
        opts["metadata"] = val["metadata"]
    if val.get("raw_metadata") is not None:
        opts["raw_metadata"] = val["raw_metadata"].hex()
    h = {"ref": 0}
    return [{"op": ("sw_" if side == "s" else "aw_") + "open", "cache": cache, "key": key, "opts": opts},
            {"op": "w_write_all", "h": h, "data": {"gen": [val["n"], val["tag"]]}}, {"op": "w_commit", "h": h}]


def apply_model(model, op):
    if op[0] == "R":
        model.remove(op[1])
        return
    _, key, v = op
    val = VALUES[v]
    data = ref.gen(val["n"], val["tag"])
    model.write(key, ref.sri("sha256", data), data, size=val["n"], time=val["time"], metadata=val.get("metadata"), raw_metadata=val.get("raw_metadata"))


def build_init(ctx, sc, cache):
    fsutil.wipe(cache)
    srv = ctx.srv("sync")
    model = seqx.new_model()
    for op in sc["init"]:
        for req in op_program(op, cache, "s"):
            if isinstance(req.get("h"), dict):
                req["h"] = last_h
            rep = srv.call(req)
            if "ok" in rep and isinstance(rep["ok"], dict) and "h" in rep["ok"]:
                last_h = rep["ok"]["h"]
            if "ok" not in rep:
                raise RuntimeError("init op failed: %r" % rep)
        apply_model(model, op)
    return fsutil.snapshot(cache), model


class ContSpec(seqx.Spec):
    prop = PROP
    sig_prefix = "continuation"
    values = VALUES

    def __init__(self, key, nb):
        self.key = key
        self.nb = nb
        self.keys = [key, nb]
        self.flavour = "astd"

    def actions(self, state=None):
        k = self.key
        return [
            {"t": "W", "key": k, "val": "cont", "side": "s", "how": "session"},
            {"t": "W", "key": k, "val": "cont", "side": "a", "how": "session"},
            {"t": "W", "key": self.nb, "val": "cont", "side": "s", "how": "session"},
            {"t": "R", "key": k, "side": "s"},
            {"t": "W", "key": k, "val": "short", "side": "a", "how": "session"},
            {"t": "W", "key": k, "val": "long", "side": "s", "how": "session"},
        ]


def observe_candidates(ctx, cache, cands, keys_, addrs, flavours):
    """Which candidate models agree with every observation? Returns (index or None, [violations per cand])."""
    diffs = []
    for i, m in enumerate(cands):
        scratch = V.new()
        for fl in flavours:
            observe_and_check(ctx, scratch, ctx.srv(fl), fl, cache, m, keys_, addrs, sig_prefix="x", replay={}, sides=None if fl != "tok" else ["a"])
        diffs.append(scratch["violations"])
        if not scratch["violations"]:
            return i, diffs
    return None, diffs


def worker(ctx, job):
    res = V.new()
    sc = job["sc"]
    cache = ctx.path("c04-cache")
    store = ctx.__dict__.setdefault("_c04", {})
    if sc["id"] not in store:
        store.clear()
        store[sc["id"]] = build_init(ctx, sc, cache)
    init_snap, old_model = store[sc["id"]]
    new_model = old_model.clone()
    apply_model(new_model, sc["op"])
    key = sc["op"][1]
    a, b = keys()
    nb = b if key != b else a
    all_keys = sorted({key, a, b, MKEY})
    addrs = [ref.sri("sha256", ref.gen(v["n"], v["tag"])) for v in VALUES.values()]
    side = "s" if sc["flavour"] == "sync" else "a"
    obs_flavours = ["astd"] if ctx.tier == "quick" else ["astd", "tok"]

    def run_one(cp):
        fsutil.restore(cache, init_snap)
        pf = ctx.path("prog-c04.json")
        with open(pf, "w") as fh:
            json.dump(op_program(sc["op"], cache, side), fh)
        spec = {"roots": [cache], "actors": [fsx.actor(sc["flavour"], "W", pf)], "timeout_ms": 20000}
        if cp is not None:
            spec["crash"] = cp
        return fsx.run(spec, ctx.dir)

    _raw_run_one = run_one
    run_one = lambda cp: fsx.confirmed(lambda: _raw_run_one(cp))
    if job["kind"] == "probe":
        rep = run_one(None)
        res["evals"] += 1
        out = fsx.replies(rep, 0)
        replay = {"engine": "fsx", "mode": "crash", "scenario": sc, "crash": None}
        if rep["status"] != "ok" or not out or "ok" not in out[-1]:
            V.violation(res, "crash:%s/%s:clean-run-failed" % (sc["name"], sc["flavour"]), "uninterrupted operation failed: %r" % (out[-1:] or rep.get("error")), replay)
        idx, diffs = observe_candidates(ctx, cache, [new_model], all_keys, addrs, obs_flavours)
        if idx is None:
            for v in diffs[0][:2]:
                V.violation(res, "crash:%s/%s:complete-run:%s" % (sc["name"], sc["flavour"], v["sig"]), v["what"], replay)
        res["probe"] = {"sc": sc, "steps": [{"sys": s["sys"], "len": s["len"]} for s in rep["steps"] if s.get("step") is not None], "trace": fsx.sys_trace(rep, [cache])}
        fsutil.wipe(cache)
        return res

    seen = ctx.__dict__.setdefault("_c04seen", set())
    depth = 1 if ctx.tier == "quick" else 2
    cont = ContSpec(key, nb)
    for cp in job["crashes"]:
        rep = run_one(cp)
        res["evals"] += 1
        if rep["status"] != "ok":
            raise fsx.TracerError("crash run status %s: %s" % (rep["status"], rep.get("error")))
        if job.get("trace"):
            res["extra"]["prefix_checked_steps"] = res["extra"].get("prefix_checked_steps", 0) + fsx.assert_same_prefix(rep, job["trace"], cp["step"], [cache], "C04 %s/%s" % (sc["name"], sc["flavour"]))
        snap = fsutil.snapshot(cache)
        ck = fsutil.canon(snap)
        res["distinct"].add(ck)
        if (sc["id"], ck) in seen:
            continue
        seen.add((sc["id"], ck))
        res["states"] += 1
        replay = {"engine": "fsx", "mode": "crash", "scenario": sc, "crash": cp}
        # the content of the new value is published before its index record: "old entry, new content already
        # retrievable by address" is a legal intermediate state (the property constrains key lookups)
        cands = [old_model, new_model]
        if sc["op"][0] == "W":
            mid = old_model.clone()
            val = VALUES[sc["op"][2]]
            d = ref.gen(val["n"], val["tag"])
            mid.content[ref.sri("sha256", d)] = d
            cands = [old_model, mid, new_model]
        idx, diffs = observe_candidates(ctx, cache, cands, all_keys, addrs, obs_flavours)
        res["transitions"] += 1
        if idx is None:
            # report the disagreement with the closer candidate
            best = min(diffs, key=len)
            v = best[0]
            V.violation(res, "crash:%s/%s:neither-old-nor-new:%s" % (sc["name"], sc["flavour"], v["sig"][2:]),
                        "after kill at step %s (tear %s) the cache is neither in the old nor in the new state: %s" % (cp["step"], cp["tear"], v["what"]), replay)
            V.outcome(res, "NEITHER")
            continue
        V.outcome(res, "old" if cands[idx] is old_model else "new" if cands[idx] is new_model else "old+content-published")
        model = cands[idx]
        # the reference decoder must agree as well
        live = ref.tree_live(snap or {})
        if set(live) != set(model.index):
            V.violation(res, "crash:%s/%s:reference-decoder-disagrees" % (sc["name"], sc["flavour"]),
                        "reference decoder sees keys %s, library behaves like %s" % (sorted(live), sorted(model.index)), replay)
        # continuations
        frontier = [(snap, model, [])]
        for d in range(depth):
            nxt = []
            for (s0, m0, hist) in frontier:
                for action in cont.actions():
                    fsutil.restore(cache, s0)
                    m1 = m0.clone()
                    h1 = hist + [seqx.label(action)]
                    rp = dict(replay)
                    rp["continuation"] = h1
                    cont.apply(ctx, res, ctx.srv("astd"), cache, action, m1, rp)
                    res["transitions"] += 1
                    before = len(res["violations"])
                    observe_and_check(ctx, res, ctx.srv("astd"), "astd", cache, m1, all_keys, addrs, sig_prefix="crash:%s/%s:continuation" % (sc["name"], sc["flavour"]), replay=rp)
                    if d + 1 < depth and len(res["violations"]) == before:
                        nxt.append((fsutil.snapshot(cache), m1, h1))
            frontier = nxt
    fsutil.wipe(cache)
    if job["crashes"]:
        res["samples"].append({"scenario": sc["name"], "flavour": sc["flavour"], "crash": job["crashes"][len(job["crashes"]) // 2], "continuations_depth": depth})
    return res


def main(tier, seed=0):
    import multiprocessing as mp
    from vlib import run as R
    t0 = time.time()
    scs = scenarios(tier)
    counter = mp.Value("i", 0)
    pool = mp.Pool(R.NPROC, initializer=R._init, initargs=(R.base_dir(), counter, tier, seed, 20.0, worker))
    agg = V.new()
    merr = []
    total_points = 0
    try:
        probes = []
        for r in pool.imap_unordered(R._work, [{"kind": "probe", "sc": sc} for sc in scs], chunksize=1):
            if "machinery_error" in r:
                merr.append(r["machinery_error"])
                continue
            _acc(agg, r)
            probes.append(r["probe"])
        jobs = []
        for pr in probes:
            cps = crash_points(pr["steps"])
            total_points += len(cps)
            chunk = 12 if tier != "quick" else 25
            for i in range(0, len(cps), chunk):
                jobs.append({"kind": "crash", "sc": pr["sc"], "crashes": cps[i:i + chunk], "trace": pr.get("trace")})
        jobs.sort(key=lambda j: j["sc"]["id"])
        for r in pool.imap_unordered(R._work, jobs, chunksize=1):
            if "machinery_error" in r:
                merr.append(r["machinery_error"])
                continue
            _acc(agg, r)
    finally:
        pool.terminate()
        pool.join()
    agg["extra"].update({"scenarios": len(scs), "crash_points": total_points, "continuation_depth": 1 if tier == "quick" else 2,
                         "continuation_alphabet": 6})
    return R.finish(PROP, tier, agg, merr, time.time() - t0, level="fault_enumeration",
                    rule="case = (scenario [first write, overwrite longer/shorter/same content, tombstone removal, multi-byte key+metadata, rewrite after removal] x writer "
                         "flavour, kill point, torn length of the in-flight write [every byte of the index append]); distinct = distinct crash states; on each: observation through "
                         "every lookup entry point of sync+async (thorough: + tokio) must equal the old or the new model state, then all continuation histories up to the depth bound",
                    technique="exhaustive crash-point and torn-write enumeration under a ptrace controller (fsx) followed by explicit-state exploration of continuations",
                    assumptions=["crash = process kill, kernel survives", "a single write system call on an O_APPEND descriptor is atomic with respect to the kill up to its torn length"],
                    seed=seed, capped=False, jobs_done=len(scs), jobs_total=len(scs), exhaustive=True)
