"""C09 — removals remove exactly what they name and nothing else.

Explicit-state BFS over histories mixing writes with remove, remove_hash, remove_fully and clear over
three keys (two sharing index-v5/aa/bb, the third sharing index-v5/aa) and two values whose content
files share content-v2/sha256/aa/bb; a and b may hold the same value (one content file). After every
transition every key and every address is observed through every lookup entry point.
"""
import time

from vlib import ref, run, seqx, tables

PROP = "C09"


def values():
    (n1, t1), (n2, t2) = tables.sibling_gen_values("sha256", 4)
    return {
        "d1": {"n": n1, "tag": t1, "time": 111, "declare_size": True},
        "d2": {"n": n2, "tag": t2, "time": 2 ** 62, "metadata": {"m": 2}},   # explicit time far in the future
        "d3": {"n": n1, "tag": (t1 + 1) % 256, "time": 112, "declare_size": True},   # record of the same byte length as d1's
    }


class C09Spec(seqx.Spec):
    prop = PROP
    sig_prefix = "rm"

    def __init__(self, flavour, depth, sides=("s", "a")):
        self.flavour = flavour
        self.depth = depth
        self.keys = list(tables.key_family())
        self.values = values()
        self.sides = sides

    def actions(self, state):
        out = []
        for k in self.keys:
            for v in ("d1", "d2"):
                for side in self.sides:
                    out.append({"t": "W", "key": k, "val": v, "side": side, "how": "session"})
        out.append({"t": "W", "key": self.keys[0], "val": "d3", "side": self.sides[0], "how": "session"})
        for side in self.sides:
            for k in self.keys:
                out.append({"t": "R", "key": k, "side": side})
            for v in ("d1", "d2"):
                out.append({"t": "RH", "val": v, "side": side})
            for k in self.keys:
                out.append({"t": "RF", "key": k, "side": side})
            out.append({"t": "CL", "side": side})
        return out


def main(tier, seed=0):
    t0 = time.time()
    if tier == "quick":
        runs = [C09Spec("astd", 5)]
    else:
        runs = [C09Spec("astd", 6), C09Spec("tok", 5), C09Spec("sync", 6, sides=("s",))]
    total = None
    merr_all = []
    capped_any = False
    for spec in runs:
        agg, merr, capped, wall = seqx.bfs(spec, tier, level="model_checking", rule="", technique="", finish=False,
                                           budget_s=200 if tier == "quick" else 2400)
        merr_all += merr
        capped_any |= capped
        tag = "%s-depth%d" % (spec.flavour, spec.depth)
        total = merge(total, agg, tag)
    return run.finish(PROP, tier, total, merr_all, time.time() - t0, level="model_checking",
                      rule="state = (canonical on-disk cache, model); alphabet = {write d1/d2 under a/b/c, remove, remove_hash(d1/d2), remove_fully, clear} x "
                           "{sync, async}; a,b share index-v5/aa/bb, c shares index-v5/aa, d1,d2 share content-v2/sha256/aa/bb; after every transition every key "
                           "and address is observed (read*, metadata*, index::find*, streamed Reader, exists*, read_hash*, list_sync) and compared with the model",
                      technique="explicit-state breadth-first model checking of the real implementation (on-disk states), oracle = dictionary model",
                      assumptions=["removing an absent address/entry may answer Ok or IoError but must not change the state",
                                   "remove_fully of an entry whose content is already gone fails and changes nothing (content unlink comes first)"],
                      seed=seed, capped=capped_any, jobs_done=len(runs), jobs_total=len(runs), exhaustive=not capped_any)


def merge(total, agg, tag):
    if total is None:
        total = agg
        total["extra"] = {"runs": {tag: agg["extra"]}}
        total["distinct"] = set(tag + k for k in agg["distinct"])
        return total
    total["evals"] += agg["evals"]
    total["transitions"] += agg["transitions"]
    total["states"] += agg["states"]
    total["violations"] += agg["violations"]
    total["distinct"] |= set(tag + k for k in agg["distinct"])
    for k, v in agg["outcomes"].items():
        total["outcomes"][k] = total["outcomes"].get(k, 0) + v
    total["samples"] += agg["samples"][:1]
    total["extra"]["runs"][tag] = agg["extra"]
    return total
