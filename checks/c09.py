"""C09 — removals remove exactly what they name and nothing else.

Explicit-state BFS over histories mixing writes with remove, remove_hash, remove_fully and clear over
three keys (two sharing index-v5/aa/bb, the third sharing index-v5/aa) and two values whose content
files share content-v2/sha256/aa/bb; a and b may hold the same value (one content file). After every
transition every key and every address is observed through every lookup entry point.
"""
import os
import time

from vlib import ref, run, seqx, tables

PROP = "C09"


def values():
    (n1, t1), (n2, t2) = tables.sibling_gen_values("sha256", 4)
    return {
        "d1": {"n": n1, "tag": t1, "time": 111, "declare_size": True},
        "d2": {"n": n2, "tag": t2, "time": 2 ** 62, "metadata": {"m": 2}},   # explicit time far in the future
        "d3": {"n": n1, "tag": (t1 + 1) % 256, "time": 112, "declare_size": True},   # record of the same byte length as d1's
    }


class C09Spec(seqx.Spec):
    prop = PROP
    sig_prefix = "rm"

    def __init__(self, flavour, depth, sides=("s", "a")):
        self.flavour = flavour
        self.depth = depth
        self.keys = list(tables.key_family())
        self.values = values()
        self.sides = sides

    def actions(self, state):
        out = []
        for k in self.keys:
            for v in ("d1", "d2"):
                for side in self.sides:
                    out.append({"t": "W", "key": k, "val": v, "side": side, "how": "session"})
        out.append({"t": "W", "key": self.keys[0], "val": "d3", "side": self.sides[0], "how": "session"})
        for side in self.sides:
            for k in self.keys:
                out.append({"t": "R", "key": k, "side": side})
            for v in ("d1", "d2"):
                out.append({"t": "RH", "val": v, "side": side})
            for k in self.keys:
                out.append({"t": "RF", "key": k, "side": side})
            out.append({"t": "CL", "side": side})
        return out


def main(tier, seed=0):
    t0 = time.time()
    # (spec, which start states): the deep runs start from the empty cache, a shallower one from the reference-written
    # cache with a torn record
    if tier == "quick":
        runs = [(C09Spec("astd", 5), 0), (C09Spec("astd", 3), 1)]
    else:
        runs = [(C09Spec("astd", 6), 0), (C09Spec("astd", 5), 1), (C09Spec("tok", 5), 0), (C09Spec("tok", 4), 1), (C09Spec("sync", 6, sides=("s",)), 0)]
    total = None
    merr_all = []
    capped_any = False
    for spec, which in runs:
        agg, merr, capped, wall = seqx.bfs(spec, tier, seeds=torn_seeds(spec)[which:which + 1], level="model_checking", rule="", technique="", finish=False,
                                           budget_s=200 if tier == "quick" else 2400)
        merr_all += merr
        capped_any |= capped
        tag = "%s-depth%d-%s" % (spec.flavour, spec.depth, "from-empty" if which == 0 else "from-torn-record")
        total = merge(total, agg, tag)
    try:
        total = merge(total, rootforms_part(tier, seed), "cache-root-forms")
    except Exception:
        import traceback
        merr_all.append(traceback.format_exc())
    return run.finish(PROP, tier, total, merr_all, time.time() - t0, level="model_checking",
                      rule="state = (canonical on-disk cache, model); alphabet = {write d1/d2 under a/b/c, remove, remove_hash(d1/d2), remove_fully, clear} x "
                           "{sync, async}; a,b share index-v5/aa/bb, c shares index-v5/aa, d1,d2 share content-v2/sha256/aa/bb; after every transition every key "
                           "and address is observed (read*, metadata*, index::find*, streamed Reader, exists*, read_hash*, list_sync) and compared with the model",
                      technique="explicit-state breadth-first model checking of the real implementation (on-disk states), oracle = dictionary model",
                      assumptions=["removing an absent address/entry may answer Ok or IoError but must not change the state",
                                   "remove_fully of an entry whose content is already gone fails and changes nothing (content unlink comes first)"],
                      seed=seed, capped=capped_any, jobs_done=len(runs), jobs_total=len(runs), exhaustive=not capped_any)


def torn_seeds(spec):
    """Start states: the empty cache, and a reference-written cache in which an interrupted append left a torn record
    between two records of the first key (every reader skips it: removals appended later must hide the key everywhere)."""
    vals = values()
    a = spec.keys[0]
    v = vals["d1"]
    d = ref.gen(v["n"], v["tag"])
    s1 = ref.sri("sha256", d)
    r1 = {"key": a, "integrity": s1, "time": 3, "size": v["n"], "metadata": None, "raw_metadata": None}
    r2 = {"key": a, "integrity": s1, "time": 4, "size": v["n"], "metadata": {"second": True}, "raw_metadata": None}
    E = ref.encode_record
    snap = {ref.bucket_rel(a): ("f", E(r1) + E(r2)[:37] + E(r2)), ref.content_rel(s1): ("f", d)}
    ref.add_parent_dirs(snap)
    m = seqx.new_model()
    m.write(a, s1, d, size=v["n"], time=4, metadata={"second": True})
    return [("empty", None, seqx.new_model()), ("ref-written: torn record between two records of the first key", snap, m)]


def rootforms_part(tier, seed):
    """Removals name things inside the cache directory, however that directory was named by the caller: the cache reached
    through a symbolic link, as a relative path, and as '.'. For every removal form: what it names is gone, the rest is
    intact, the directory the caller named is still the same directory (a symlink stays a symlink), and the cache stays
    usable through the same name."""
    from vlib import fsutil, wr
    from vlib.run import V, classify
    res = V.new()
    ctx = run.Ctx(run.base_dir(), 900, tier, seed, 20.0)
    try:
        for flavour in (("sync", "astd") if tier == "quick" else ("sync", "astd", "tok")):
            srv = ctx.srv(flavour, slot=5)   # own server: it changes its working directory
            for side in (("s",) if flavour == "sync" else ("a", "s")):
                suf = "_sync" if side == "s" else ""
                for form in ("symlink", "relative", "dot", "symlink-trailing-slash", "index-relocated", "content-relocated"):
                    for removal in ("clear", "remove_fully", "remove", "remove_hash"):
                        parent = ctx.fresh("c09root-")
                        real = os.path.join(parent, "real-cache")
                        os.makedirs(real)
                        os.symlink("real-cache", os.path.join(parent, "link"))
                        arg, cwd = {"symlink": (os.path.join(parent, "link"), parent), "relative": ("real-cache", parent), "dot": (".", real),
                                    "symlink-trailing-slash": (os.path.join(parent, "link") + "/", parent),
                                    "index-relocated": (real, parent), "content-relocated": (real, parent)}[form]
                        if form in ("index-relocated", "content-relocated"):
                            # one of the cache's own sub-directories lives elsewhere (a symbolic link inside the cache directory)
                            sub = ref.INDEX_DIR if form == "index-relocated" else ref.CONTENT_DIR
                            os.makedirs(os.path.join(parent, "elsewhere", sub))
                            os.symlink(os.path.join(parent, "elsewhere", sub), os.path.join(real, sub))
                        srv.call({"op": "chdir", "dir": cwd})
                        case = {"flavour": flavour, "side": side, "cache_named_as": form, "removal": removal}
                        replay = {"engine": "seqx", "mode": "cache root forms", "case": case}
                        sig = "rootform:%s:%s/%s" % (form, removal, side)
                        res["evals"] += 1
                        res["distinct"].add(V.h(flavour, side, form, removal))
                        d1, d2 = ref.gen(6, 91), ref.gen(9, 92)
                        w1 = srv.call({"op": "write" + suf, "cache": arg, "key": "k1", "data": {"gen": [6, 91]}})
                        w2 = srv.call({"op": "write" + suf, "cache": arg, "key": "k2", "data": {"gen": [9, 92]}})
                        if "ok" not in w1 or "ok" not in w2:
                            V.violation(res, sig + ":setup-" + classify(w1 if "ok" not in w1 else w2), "writes through a cache named %r failed: %r %r" % (arg, w1, w2), replay)
                            continue
                        s1 = w1["ok"]
                        if removal == "clear":
                            r = srv.call({"op": "clear" + suf, "cache": arg})
                            gone, kept = ["k1", "k2"], []
                        elif removal == "remove_fully":
                            r = srv.call({"op": "remove_opts" + suf, "cache": arg, "key": "k1", "fully": True})
                            gone, kept = ["k1"], ["k2"]
                        elif removal == "remove":
                            r = srv.call({"op": "remove" + suf, "cache": arg, "key": "k1"})
                            gone, kept = ["k1"], ["k2"]
                        else:
                            r = srv.call({"op": "remove_hash" + suf, "cache": arg, "sri": s1})
                            gone, kept = [], ["k2"]
                        res["transitions"] += 3
                        V.outcome(res, "%s:%s" % (removal, classify(r)))
                        if "ok" not in r:
                            V.violation(res, sig + ":" + classify(r), "%s through a cache named %r failed: %r" % (removal, arg, r), replay)
                        # judged through the REAL directory, by a sync lookup of the same build
                        for k in gone:
                            m = srv.call({"op": "metadata_sync", "cache": real, "key": k})
                            if m.get("ok") is not None or "ok" not in m:
                                V.violation(res, sig + ":still-there", "after %s the key %s is still found in the real cache directory: %r" % (removal, k, m), replay)
                        for k in kept:
                            rd = srv.call({"op": "read_sync", "cache": real, "key": k})
                            if not ("ok" in rd and wr.data_matches(rd["ok"], d2)):
                                V.violation(res, sig + ":bystander-lost", "after %s the other key reads %r" % (removal, rd), replay)
                        if removal in ("clear", "remove_fully", "remove_hash") and os.path.lexists(os.path.join(real, ref.content_rel(s1))) and os.path.exists(os.path.join(real, ref.content_rel(s1))):
                            V.violation(res, sig + ":content-still-there", "after %s the content file is still in the real cache directory" % removal, replay)
                        if removal == "clear":
                            left = [x for x in os.listdir(real)] if os.path.isdir(real) else None
                            if left:
                                V.violation(res, sig + ":not-empty", "after clear the real cache directory still holds %r" % left, replay)
                        if not os.path.islink(os.path.join(parent, "link")) or os.readlink(os.path.join(parent, "link")) != "real-cache" or not os.path.isdir(real):
                            V.violation(res, sig + ":cache-directory-replaced", "the directory / symbolic link the caller named is no longer what it was", replay)
                        # still usable through the same name, and it is still the same directory
                        w3 = srv.call({"op": "write" + suf, "cache": arg, "key": "k3", "data": {"gen": [6, 91]}})
                        rd = srv.call({"op": "read_sync", "cache": real, "key": "k3"})
                        if "ok" not in w3 or not ("ok" in rd and wr.data_matches(rd["ok"], d1)):
                            V.violation(res, sig + ":not-usable-afterwards", "a write through %r after %s: %r; read through the real path: %r" % (arg, removal, w3, rd), replay)
                        srv.call({"op": "chdir", "dir": "/"})
                        fsutil.wipe(parent)
    finally:
        ctx.close()
    res["extra"] = {"cache_root_forms": ["symlink", "relative", "dot", "symlink-trailing-slash", "index-relocated", "content-relocated"]}
    res["samples"] = [{"part": "cache root forms", "cases": res["evals"]}]
    return res


def merge(total, agg, tag):
    if total is None:
        total = agg
        total["extra"] = {"runs": {tag: agg["extra"]}}
        total["distinct"] = set(tag + k for k in agg["distinct"])
        return total
    total["evals"] += agg["evals"]
    total["transitions"] += agg["transitions"]
    total["states"] += agg["states"]
    total["violations"] += agg["violations"]
    total["distinct"] |= set(tag + k for k in agg["distinct"])
    for k, v in agg["outcomes"].items():
        total["outcomes"][k] = total["outcomes"].get(k, 0) + v
    total["samples"] += agg["samples"][:1]
    total["extra"]["runs"][tag] = agg["extra"]
    return total
