"""C19 — linked entries (link_to) read back verified target bytes, never copy or clobber.

Bounded-exhaustive input/history enumeration (seqx, builds with the link_to feature): target size x target path
form (absolute, relative to the working directory, relative with ../, through a symlinked directory) x entry
point (link_to*, link_to_hash*, WriteOpts::link_to* with correct/wrong declared size/integrity) x partial reads
through the linker before commit x post-link event (none, same-length modification, truncation, extension, removal,
replacement) x pre-existing regular content at the address x flavour.
"""
import os

from vlib import fsutil, ref, wr
from vlib.model import entry_of_reply
from vlib.ops import is_async
from vlib.run import V, classify, run_check

PROP = "C19"
KEY = "linked-key"


def make_jobs(tier):
    quick = tier == "quick"
    sizes = [0, 1, 8, 9, 16384, 16385, 40000]
    jobs = []
    for flavour in ("sync", "astd", "tok"):
        for side in (["s"] if not is_async(flavour) else (["a"] if quick else ["s", "a"])):
            for n in sizes:
                jobs.append({"flavour": flavour, "side": side, "n": n})
    return jobs


def stat_sig(p):
    st = os.stat(p)
    return (st.st_ino, st.st_mtime_ns, st.st_size)


def worker(ctx, job):
    res = V.new()
    flavour, side, n = job["flavour"], job["side"], job["n"]
    quick = ctx.tier == "quick"
    srv = ctx.srv(flavour, slot=3)   # own server: it changes its working directory
    s = side == "s"
    base = ctx.fresh("c19-")
    os.makedirs(os.path.join(base, "work", "sub"))
    os.makedirs(os.path.join(base, "real-dir"))
    os.symlink("real-dir", os.path.join(base, "sym-dir"))
    cache = os.path.join(base, "cache")
    data = ref.gen(n, 131)
    sri = ctx.sri("sha256", data)
    forms = {
        "absolute": (os.path.join(base, "work", "target-file"), os.path.join(base, "work", "target-file"), os.path.join(base, "work")),
        "relative": ("target-file", os.path.join(base, "work", "target-file"), os.path.join(base, "work")),
        "relative-dotdot": ("../target-file", os.path.join(base, "work", "target-file"), os.path.join(base, "work", "sub")),
        "via-symlinked-dir": (os.path.join(base, "sym-dir", "target-file"), os.path.join(base, "real-dir", "target-file"), os.path.join(base, "work")),
        # the target is itself a symbolic link whose stored destination is relative to ITS directory, not to the cwd
        "alias-with-relative-destination": (os.path.join(base, "real-dir", "alias"), os.path.join(base, "real-dir", "aliased-file"), os.path.join(base, "work")),
    }
    os.symlink("aliased-file", os.path.join(base, "real-dir", "alias"))
    entries = ["link_to", "link_to_hash", "opts", "opts_hash", "opts_wrong_size", "opts_wrong_integrity", "opts_hash_wrong_size", "opts_hash_wrong_integrity", "session", "opts_size_smaller", "opts_size_zero", "session_append"]
    partials = [0, 1, 8, 9, 16384, "all", "all-into-prefilled-vector"]
    events = ["none", "modify", "truncate", "extend", "remove", "replace"]
    lookups_read = [("read_sync", "read_hash_sync")] + ([("read", "read_hash")] if is_async(flavour) else [])
    for fname, (arg, real, cwd) in forms.items():
        srv.call({"op": "chdir", "dir": cwd})
        for entry in entries:
            if entry in ("opts_size_smaller", "opts_size_zero") and n == 0:
                continue
            plist = partials if entry == "session" else [None]
            if entry == "opts_size_smaller":
                plist = [None, n - 1, "all"] if n > 1 else [None, "all"]
            elif entry == "opts_size_zero":
                plist = [None, 1]
            elif entry == "session_append":
                plist = ["all", 0]
            for partial in plist:
                for event in (events if entry in ("link_to", "session", "opts") else ["none"]):
                    REJECTED = ("opts_wrong_size", "opts_wrong_integrity", "opts_hash_wrong_size", "opts_hash_wrong_integrity", "opts_size_smaller", "opts_size_zero", "session_append")
                    for pre in ((False, True) if (fname == "absolute" and entry in ("link_to", "link_to_hash") and event in ("none", "modify")) else
                                (False, "earlier-link") if (fname in ("absolute", "relative") and entry in REJECTED) else (False,)):
                        fsutil.wipe(cache)
                        fsutil.wipe(real)
                        with open(real, "wb") as fh:
                            fh.write(data)
                        if pre == "earlier-link":
                            # the same bytes were linked successfully before (another key): a later REJECTED link must leave that entry readable
                            r0 = srv.call({"op": "link_to_sync", "cache": cache, "key": "earlier-key", "target": real})
                            if r0.get("ok") != sri:
                                V.violation(res, "link:%s/%s:%s:earlier-link-%s" % (entry, side, fname, classify(r0)), "setting up the earlier link failed: %r" % r0, {"engine": "seqx"})
                        elif pre:
                            wr.do_write(srv, cache, side="s", entry="hash", n=n, tag=131)
                        sig0 = stat_sig(real)
                        keyed = entry not in ("link_to_hash", "opts_hash", "opts_hash_wrong_size", "opts_hash_wrong_integrity")
                        case = {"flavour": flavour, "side": side, "n": n, "path_form": fname, "entry": entry, "partial_read": partial, "event": event, "preexisting": pre}
                        replay = {"engine": "seqx", "case": case}
                        res["evals"] += 1
                        res["distinct"].add(V.h(flavour, side, n, fname, entry, partial, event, pre))
                        sig = "link:%s/%s:%s" % (entry, side, fname)
                        # ---- perform the link
                        if entry in ("link_to", "link_to_hash"):
                            req = {"op": entry + ("_sync" if s else ""), "cache": cache, "target": arg}
                            if keyed:
                                req["key"] = KEY
                            rep = srv.call(req)
                        else:
                            req = {"op": "sl_open" if s else "al_open", "cache": cache, "target": arg}
                            if keyed:
                                req["key"] = KEY
                            if entry.startswith("opts"):
                                o = {}
                                if entry in ("opts_wrong_size", "opts_hash_wrong_size"):
                                    o["size"] = n + 1
                                elif entry == "opts_size_smaller":
                                    o["size"] = n - 1
                                elif entry == "opts_size_zero":
                                    o["size"] = 0
                                elif entry in ("opts_wrong_integrity", "opts_hash_wrong_integrity"):
                                    o["integrity"] = ctx.sri("sha256", data + b"x")
                                elif entry == "opts":
                                    o["size"] = n
                                    o["integrity"] = sri
                                    o["time"] = "77"
                                    o["metadata"] = {"linked": True}
                                req["opts"] = o or {"algorithm": "sha256"}
                            rep = srv.call(req)
                            if "ok" in rep:
                                h = rep["ok"]["h"]
                                if entry in ("session", "opts_size_smaller", "opts_size_zero", "session_append") and partial:
                                    if partial in ("all", "all-into-prefilled-vector"):
                                        rr = srv.call({"op": "r_read_to_end", "h": h, "prefill": 0 if partial == "all" else 5})
                                        if not ("ok" in rr and wr.data_matches(rr["ok"], data)):
                                            V.violation(res, sig + ":linker-read-wrong", "reading through the linker gave %r" % rr, replay)
                                    else:
                                        rr = srv.call({"op": "r_read", "h": h, "n": partial})
                                        if "ok" not in rr or rr["ok"]["len"] != min(partial, n) or (rr["ok"].get("hex") is not None and bytes.fromhex(rr["ok"]["hex"]) != data[:partial]):
                                            V.violation(res, sig + ":linker-read-wrong", "partial read through the linker gave %r" % rr, replay)
                                if entry == "session_append":
                                    # the target grows between open (where its size was taken) and commit
                                    with open(real, "ab") as fh:
                                        fh.write(b"+")
                                rep = srv.call({"op": "l_commit", "h": h})
                                if entry == "session_append":
                                    with open(real, "r+b") as fh:
                                        fh.truncate(n)
                        res["transitions"] += 1
                        cls = classify(rep)
                        V.outcome(res, "%s:%s" % (entry, cls))
                        if not ("ok" in rep or "err" in rep) or rep.get("panics"):
                            V.violation(res, sig + ":" + cls, "call did not return a value: %r" % rep, replay)
                            continue
                        if entry != "session_append" and (stat_sig(real) != sig0 or open(real, "rb").read() != data):
                            V.violation(res, sig + ":target-modified", "linking touched the target (inode/mtime/size %s -> %s)" % (sig0, stat_sig(real)), replay)
                        if entry in REJECTED:
                            want = "IntegrityError" if entry.endswith("wrong_integrity") else "SizeMismatch"
                            if rep.get("err", {}).get("variant") != want:
                                V.violation(res, sig + ":got-" + cls, "wrong declaration must be rejected with %s, got %r" % (want, rep), replay)
                            m = srv.call({"op": "metadata_sync", "cache": cache, "key": KEY})
                            if m.get("ok") is not None:
                                V.violation(res, sig + ":rejected-but-mapped", "rejected link still mapped the key: %r" % m, replay)
                            if pre == "earlier-link":
                                for op_ in ("read_sync", "read_hash_sync"):
                                    r1 = srv.call({"op": op_, "cache": cache, "key": "earlier-key", "sri": sri})
                                    res["transitions"] += 1
                                    if not ("ok" in r1 and wr.data_matches(r1["ok"], data)):
                                        V.violation(res, sig + ":rejected-link-damaged-earlier-entry:" + op_, "after a rejected link of the same bytes, %s of the entry linked earlier gives %r" % (op_, r1), replay)
                            continue
                        if rep.get("ok") != sri:
                            V.violation(res, sig + ":" + (cls if "ok" not in rep else "wrong-digest"), "link returned %r, expected %s" % (rep, sri), replay)
                            continue
                        # ---- state right after linking
                        cpath = os.path.join(cache, ref.content_rel(sri))
                        if not pre:
                            if not os.path.islink(cpath):
                                V.violation(res, sig + ":not-a-symlink", "content path is not a symlink (data was copied?)", replay)
                            snap = fsutil.snapshot(cache) or {}
                            copies = [r for r, e in snap.items() if e[0] == "f" and not r.startswith(ref.INDEX_DIR) and len(e[1]) == n and n > 0]
                            if copies:
                                V.violation(res, sig + ":data-copied", "regular file(s) holding the data exist in the cache: %s" % copies, replay)
                        if keyed:
                            m = srv.call({"op": "metadata_sync", "cache": cache, "key": KEY})
                            e = entry_of_reply(m.get("ok")) if m.get("ok") else None
                            if e is None or e["integrity"] != sri or e["size"] != n:
                                V.violation(res, sig + ":metadata:%s" % ("missing" if e is None else "wrong-size" if e["size"] != n else "wrong-integrity"),
                                            "metadata after link: %r (true size %d)" % (m, n), replay)
                        # ---- post-link event
                        expect_ok = True
                        if event == "modify" and n > 0:
                            with open(real, "r+b") as fh:
                                fh.write(bytes([data[0] ^ 0xff]))
                            expect_ok = pre
                        elif event == "truncate" and n > 0:
                            with open(real, "r+b") as fh:
                                fh.truncate(n - 1)
                            expect_ok = pre
                        elif event == "extend":
                            with open(real, "ab") as fh:
                                fh.write(b"!")
                            expect_ok = pre
                        elif event == "remove":
                            os.unlink(real)
                            expect_ok = pre
                        elif event == "replace":
                            os.unlink(real)
                            with open(real, "wb") as fh:
                                fh.write(ref.gen(n, 132) if n else b"z")
                            expect_ok = pre
                        for by_key, by_hash in lookups_read:
                            for op in ([by_key] if keyed else []) + [by_hash]:
                                r = srv.call({"op": op, "cache": cache, "key": KEY, "sri": sri})
                                res["transitions"] += 1
                                if "ok" in r:
                                    if not wr.data_matches(r["ok"], data):
                                        V.violation(res, "%s:%s:after-%s:other-bytes" % (sig, op, event), "%s returned bytes that are not the linked data: %r" % (op, r), replay)
                                    elif not expect_ok:
                                        V.violation(res, "%s:%s:after-%s:stale-ok" % (sig, op, event), "%s still succeeds after the target was changed" % op, replay)
                                elif "err" in r:
                                    if expect_ok:
                                        V.violation(res, "%s:%s:after-%s:%s" % (sig, op, event, classify(r)), "%s of a linked entry failed: %r" % (op, r), replay)
                                    elif r["err"].get("variant") not in ("IntegrityError", "IoError"):
                                        V.violation(res, "%s:%s:after-%s:%s" % (sig, op, event, classify(r)), "expected an integrity or I/O error, got %r" % r, replay)
                                else:
                                    V.violation(res, "%s:%s:%s" % (sig, op, classify(r)), "read did not return a value: %r" % r, replay)
    # ---- a linked entry whose target disappeared is removed (plainly / fully), then a DIFFERENT file holding the same bytes
    # is linked: the cache must take the new link and serve the bytes again
    if n > 0:
        srv.call({"op": "chdir", "dir": os.path.join(base, "work")})
        t1 = os.path.join(base, "work", "first-target")
        t2 = os.path.join(base, "work", "second-target")
        for how in ("remove", "remove_fully", "remove_hash", "nothing"):
            for reuse in (False, True):
                fsutil.wipe(cache)
                for t_ in (t1, t2):
                    with open(t_, "wb") as fh:
                        fh.write(data)
                case = {"flavour": flavour, "side": side, "n": n, "history": ["link first-target", "delete first-target" + (" and reuse its path for other bytes" if reuse else ""), how, "link second-target (same bytes)"]}
                replay = {"engine": "seqx", "case": case}
                sig = "link:relink-after-%s/%s:%s" % (how, side, "path-reused" if reuse else "target-gone")
                res["evals"] += 1
                res["distinct"].add(V.h("relink", flavour, side, n, how, reuse))
                r0 = srv.call({"op": "link_to" + ("_sync" if s else ""), "cache": cache, "key": KEY, "target": t1})
                os.unlink(t1)
                if reuse:
                    with open(t1, "wb") as fh:
                        fh.write(ref.gen(n, 133))
                if how == "remove":
                    srv.call({"op": "remove" + ("_sync" if s else ""), "cache": cache, "key": KEY})
                elif how == "remove_fully":
                    srv.call({"op": "remove_opts" + ("_sync" if s else ""), "cache": cache, "key": KEY, "fully": True})
                elif how == "remove_hash":
                    srv.call({"op": "remove_hash" + ("_sync" if s else ""), "cache": cache, "sri": sri})
                r1 = srv.call({"op": "link_to" + ("_sync" if s else ""), "cache": cache, "key": "second-key", "target": t2})
                res["transitions"] += 3
                V.outcome(res, "relink:%s" % classify(r1))
                if r0.get("ok") != sri:
                    V.violation(res, sig + ":first-link-" + classify(r0), "first link failed: %r" % r0, replay)
                    continue
                if how in ("remove_fully", "remove_hash"):
                    # the address was vacated by the library itself: the new link must be taken and must work
                    if r1.get("ok") != sri:
                        V.violation(res, sig + ":" + classify(r1), "linking another file with the same bytes after %s failed: %r" % (how, r1), replay)
                        continue
                    for op_ in ("read_sync", "read_hash_sync"):
                        r2 = srv.call({"op": op_, "cache": cache, "key": "second-key", "sri": sri})
                        if not ("ok" in r2 and wr.data_matches(r2["ok"], data)):
                            V.violation(res, sig + ":%s:%s" % (op_, classify(r2)), "after %s and a new link of the same bytes, %s gives %r" % (how, op_, r2), replay)
                elif not ("ok" in r1 or "err" in r1) or r1.get("panics"):
                    V.violation(res, sig + ":" + classify(r1), "second link did not return a value: %r" % r1, replay)
    # ---- every way of removing a linked entry leaves the caller's file alone (it is the caller's, not the cache's)
    if n > 0:
        srv.call({"op": "chdir", "dir": os.path.join(base, "work")})
        t1 = os.path.join(base, "work", "kept-target")
        for how in ("remove", "remove_fully", "remove_hash", "clear", "relink-same", "write-same-bytes"):
            fsutil.wipe(cache)
            with open(t1, "wb") as fh:
                fh.write(data)
            sig0 = stat_sig(t1)
            r0 = srv.call({"op": "link_to" + ("_sync" if s else ""), "cache": cache, "key": KEY, "target": t1})
            res["evals"] += 1
            res["distinct"].add(V.h("target-kept", flavour, side, n, how))
            replay = {"engine": "seqx", "case": {"flavour": flavour, "side": side, "n": n, "history": ["link", how]}}
            sig = "link:target-after-%s/%s" % (how, side)
            if r0.get("ok") != sri:
                V.violation(res, sig + ":link-" + classify(r0), "link failed: %r" % r0, replay)
                continue
            suf_ = "_sync" if s else ""
            if how == "remove":
                srv.call({"op": "remove" + suf_, "cache": cache, "key": KEY})
            elif how == "remove_fully":
                srv.call({"op": "remove_opts" + suf_, "cache": cache, "key": KEY, "fully": True})
            elif how == "remove_hash":
                srv.call({"op": "remove_hash" + suf_, "cache": cache, "sri": sri})
            elif how == "clear":
                srv.call({"op": "clear" + suf_, "cache": cache})
            elif how == "relink-same":
                srv.call({"op": "link_to" + suf_, "cache": cache, "key": "again", "target": t1})
            else:
                srv.call({"op": "write" + suf_, "cache": cache, "key": "copy", "data": {"gen": [n, 131]}})
            res["transitions"] += 2
            try:
                with open(t1, "rb") as fh:
                    now_ = fh.read()
            except OSError:
                now_ = None
            V.outcome(res, "target-kept:%s" % how)
            if now_ != data or (how != "write-same-bytes" and stat_sig(t1) != sig0):
                V.violation(res, sig + ":target-touched", "after link + %s the linked file %s" % (how, "is gone" if now_ is None else "was modified (bytes or inode/mtime)"), replay)
    fsutil.wipe(base)
    res["samples"].append({"flavour": flavour, "side": side, "n": n, "path_forms": list(forms), "entries": entries})
    return res


def main(tier, seed=0):
    return run_check(PROP, tier, make_jobs(tier), worker, level="exploration",
                     rule="case = (flavour, side, target size, target path form, entry point [link_to, link_to_hash, WriteOpts::link_to* with correct / wrong size / wrong integrity, "
                          "stepwise linker], partial read before commit, post-link event, pre-existing regular content); distinct tuples; each case links through the real API, inspects "
                          "the content path (symlink, no copy), the target (inode/mtime/bytes) and reads back by key and address through sync and async entry points",
                     technique="bounded-exhaustive input and history enumeration through the real API (link_to builds)",
                     assumptions=["target bytes as of link time are the expected data; after any change of the target a read must fail with an integrity or I/O error"],
                     seed=seed, timeout=20.0)
