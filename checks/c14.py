"""C14 — abandoned or rejected writes leave no trace in the index or temp area.

(1) explicit-state BFS (seqx): the alphabet holds ordinary successful writes/removals AND self-contained
    abandonment episodes — a writer (sync/async, keyed/by address, declared size none / <= 1 MiB / wrong, bytes
    equal to an existing value or fresh) that is dropped after creation / after 1-2 chunks / after flush / after
    close(), or whose commit is rejected by the size or by the integrity check, or a linker (link_to) that is
    opened, read from and dropped without commit. After every transition: all
    lookups and the listing equal the model (episodes do not change it), tmp/ holds no file, and content files
    match their addresses.
(2) in-flight abandonment (async flavours): poll_write once (the blocking task is spawned), then drop the writer
    (a) immediately and (b) after the task has completed, then wait for the background work; same oracle.
"""
import os
import time

from vlib import fsutil, ref, run, seqx, tables, wr
from vlib.ops import is_async
from vlib.run import V, classify
from checks.c09 import merge

PROP = "C14"
VALUES = {
    "d1": {"n": 6, "tag": 121, "time": 1},
    "d2": {"n": 19, "tag": 122, "time": 2, "metadata": {"m": 1}},
}
FRESH = {"n": 10, "tag": 123}


def episodes(full):
    out = []
    for side in ("s", "a"):
        for keyed in (True, False):
            for data in ("d1", "fresh"):
                for declared in ("none", "correct", "wrong"):
                    for point in ("created", "chunk1", "chunk2", "flushed", "closed"):
                        if point == "closed" and side == "s":
                            continue
                        if not full and (point in ("flushed",) or (data == "fresh" and declared == "correct")):
                            continue
                        out.append({"t": "AB", "side": side, "keyed": keyed, "data": data, "declared": declared, "point": point})
                for why in ("size", "integrity", "size-large", "size-overflow"):
                    if not full and why == "size-large" and side == "s":
                        continue
                    out.append({"t": "REJ", "side": side, "keyed": keyed, "data": data, "why": why})
                # a linker (link_to feature) that is opened, read from (nothing / a few bytes / everything) and dropped without commit
                for rd in ("none", "part", "all"):
                    out.append({"t": "LAB", "side": side, "keyed": keyed, "data": data, "read": rd})
    return out


class C14Spec(seqx.Spec):
    prop = PROP
    sig_prefix = "abandon"
    values = VALUES

    def __init__(self, flavour, depth, full, only_episodes_last=False):
        self.flavour = flavour
        self.depth = depth
        a, b, c = tables.key_family()
        self.keys = [a, b]
        self.eps = episodes(full)

    def actions(self, state):
        out = []
        for k in self.keys:
            out.append({"t": "W", "key": k, "val": "d1", "side": "s", "how": "session"})
            out.append({"t": "W", "key": k, "val": "d2", "side": "a", "how": "session"})
            out.append({"t": "R", "key": k, "side": "s"})
        out.append({"t": "RH", "val": "d1", "side": "a"})
        return out + self.eps

    def apply(self, ctx, res, srv, cache, action, model, replay):
        t = action["t"]
        if t not in ("AB", "REJ", "LAB"):
            return seqx.apply_standard(self, ctx, res, srv, cache, action, model, replay)
        side = action["side"]
        pre = "sw_" if side == "s" else "aw_"
        dv = VALUES["d1"] if action["data"] == "d1" else FRESH
        n, tag = dv["n"], dv["tag"]
        data = ref.gen(n, tag)
        key = self.keys[0] if action["keyed"] else None

        def bad(sig, what, rep):
            r = dict(replay)
            r["reply"] = rep
            V.violation(res, "abandon:%s:%s" % (label(action), sig), what, r)

        if t == "LAB":
            tgt = ctx.path("c14-link-target-%s" % action["data"])
            if not os.path.isfile(tgt):
                with open(tgt, "wb") as fh:
                    fh.write(data)
            req = {"op": ("sl_" if side == "s" else "al_") + "open", "cache": cache, "target": tgt}
            if key is not None:
                req["key"] = key
            rep = srv.call(req)
            res["transitions"] += 1
            if "ok" not in rep:
                bad("open-" + classify(rep), "opening a linker failed: %r" % rep, rep)
                return rep
            h = rep["ok"]["h"]
            if action["read"] != "none":
                r = srv.call({"op": "r_read", "h": h, "n": 3} if action["read"] == "part" else {"op": "r_read_to_end", "h": h})
                res["transitions"] += 1
                if "ok" not in r:
                    bad("read-" + classify(r), "reading through the linker failed: %r" % r, r)
            r = srv.call({"op": "l_drop", "h": h})
            res["transitions"] += 1
            return r
        opts = {}
        if t == "AB":
            if action["declared"] == "correct":
                opts["size"] = n
            elif action["declared"] == "wrong":
                opts["size"] = n + 3
        else:
            if action["why"] == "size":
                opts["size"] = n + 1
            elif action["why"] == "size-large":
                opts["size"] = ref.MIB + 5
            elif action["why"] == "size-overflow":
                opts["size"] = n - 2      # more bytes than declared, delivered in two chunks
            else:
                opts["integrity"] = ctx.sri("sha256", b"some other data")
        req = {"op": pre + "open", "cache": cache, "opts": opts}
        if key is not None:
            req["key"] = key
        rep = srv.call(req)
        res["transitions"] += 1
        if "ok" not in rep:
            bad("open-" + classify(rep), "open failed: %r" % rep, rep)
            return rep
        h = rep["ok"]["h"]
        if t == "AB":
            nchunks = {"created": 0, "chunk1": 1, "chunk2": 2, "flushed": 2, "closed": 1}[action["point"]]
            offs = [(0, n // 2), (n // 2, n - n // 2)]
            for i in range(nchunks):
                r = srv.call({"op": "w_write_all", "h": h, "data": {"gen": [n, tag, offs[i][0], offs[i][1]]}})
                res["transitions"] += 1
                if "ok" not in r:
                    bad("write-" + classify(r), "chunk write failed: %r" % r, r)
                    if "hang" in r or "died" in r:
                        return r
            if action["point"] == "flushed":
                r = srv.call({"op": "w_flush", "h": h})
                if "ok" not in r:
                    bad("flush-" + classify(r), "flush failed: %r" % r, r)
            if action["point"] == "closed":
                r = srv.call({"op": "w_close", "h": h})
                if "ok" not in r:
                    bad("close-" + classify(r), "close failed: %r" % r, r)
            r = srv.call({"op": "w_drop", "h": h})
            res["transitions"] += 1
            return r
        # REJ: deliver all the data, commit must be rejected
        if action["why"] == "size-overflow":
            r = srv.call({"op": "w_write_all", "h": h, "data": {"gen": [n, tag, 0, n // 2]}})
            if "ok" in r:
                r = srv.call({"op": "w_write_all", "h": h, "data": {"gen": [n, tag, n // 2, n - n // 2]}})
        else:
            r = srv.call({"op": "w_write_all", "h": h, "data": {"gen": [n, tag]}})
        if "ok" not in r:
            bad("write-" + classify(r), "write failed: %r" % r, r)
            if "hang" in r or "died" in r:
                return r
        r = srv.call({"op": "w_commit", "h": h})
        res["transitions"] += 2
        want = "SizeMismatch" if action["why"].startswith("size") else "IntegrityError"
        if r.get("err", {}).get("variant") != want:
            bad("commit-" + classify(r), "commit should be rejected with %s, got %r" % (want, r), r)
            if "ok" in r and key is not None:
                model.write(key, r["ok"], data, size=n, time=0)
        # the data itself may or may not remain retrievable under its address (it maps nothing either way);
        # what was stored before the episode must still be there
        sri_ = ctx.sri("sha256", data)
        if sri_ not in model.content and os.path.exists(os.path.join(cache, ref.content_rel(sri_))):
            model.content[sri_] = data
        return r

    def addrs(self, ctx):
        return [ctx.sri("sha256", ref.gen(v["n"], v["tag"])) for v in list(VALUES.values()) + [FRESH]]

    def extra_state_check(self, ctx, res, cache, snap, model, replay):
        seqx.content_invariant(ctx, res, snap, self.sig_prefix, replay)
        left = [r for r in (snap or {}) if r.startswith("tmp/")]
        if left:
            r = dict(replay)
            r["left"] = left
            V.violation(res, "abandon:temp-file-left", "temp file(s) left after the writer is gone: %s" % left, r)
        # a dropped writer must not have published anything: content set == model's
        files = {r for r, e in (snap or {}).items() if r.startswith(ref.CONTENT_DIR + "/") and e[0] == "f"}
        want = {ref.content_rel(s) for s in model.content}
        if not files <= want:
            V.violation(res, "abandon:content-published-by-abandoned-writer", "content files %s exist that no commit produced" % sorted(files - want), dict(replay))


def label(action):
    if action["t"] == "AB":
        return "AB(%s,%s,%s,size=%s,%s)" % (action["side"], "keyed" if action["keyed"] else "hash", action["data"], action["declared"], action["point"])
    if action["t"] == "REJ":
        return "REJ(%s,%s,%s,%s)" % (action["side"], "keyed" if action["keyed"] else "hash", action["data"], action["why"])
    if action["t"] == "LAB":
        return "LAB(%s,%s,%s,read=%s)" % (action["side"], "keyed" if action["keyed"] else "hash", action["data"], action["read"])
    return _old_label(action)


_old_label = seqx.label
seqx.label = label


def failed_commit_worker(ctx, job):
    """'After a failed commit': the commit of a writer fails because moving the finished temp file to its content
    address fails (every rename of the commit answered with EXDEV / EIO / EACCES / ENOSPC by the fault injector). Once the
    call has returned (and the background work has finished) no temp file of it remains and no lookup has changed."""
    import json as _json
    from vlib import fsx
    res = V.new()
    flavour = job["flavour"]
    side = "s" if flavour == "sync" else "a"
    pre = "sw_" if side == "s" else "aw_"
    cache = ctx.path("c14-failed-commit")
    a, b, c = tables.key_family()
    for keyed in (True, False):
        for declared in (None, 10):
            for prior in ("cold", "warm"):
                fsutil.wipe(cache)
                srv0 = ctx.srv("sync")
                if prior == "warm":
                    wr.do_write(srv0, cache, side="s", entry="oneshot", key=b, n=8, tag=5)
                init = fsutil.snapshot(cache)
                h = {"ref": 0}
                req = {"op": pre + "open", "cache": cache, "opts": {} if declared is None else {"size": declared}}
                if keyed:
                    req["key"] = a
                prog = [req, {"op": "w_write_all", "h": h, "data": {"gen": [10, 123]}}, {"op": "w_commit", "h": h}]
                pf = ctx.path("prog-c14fc.json")
                with open(pf, "w") as fh:
                    _json.dump(prog, fh)
                spec = {"roots": [cache], "actors": [fsx.actor(flavour, "F", pf)], "timeout_ms": 15000}
                probe = fsx.run(spec, ctx.dir)
                steps = [s_ for s_ in probe["steps"] if s_.get("step") is not None]
                renames = [i for i, s_ in enumerate(steps) if s_["sys"] in ("rename", "renameat", "renameat2")]
                for r in renames:
                    for errno_ in (18, 5, 13, 28):
                        fsutil.restore(cache, init)
                        if init is None:
                            fsutil.wipe(cache)
                        spec2 = dict(spec)
                        spec2["faults"] = [{"step": r, "errno": errno_}]
                        rep = fsx.confirmed(lambda: fsx.run(spec2, ctx.dir))
                        res["evals"] += 1
                        res["distinct"].add(V.h("failed-commit", flavour, keyed, declared, prior, r, errno_))
                        case = {"flavour": flavour, "keyed": keyed, "declared": declared, "prior": prior, "failing_step": r, "errno": errno_}
                        replay = {"engine": "fsx", "mode": "fault", "case": case}
                        sig = "failed-commit:%s/%s" % ("keyed" if keyed else "hash", flavour)
                        if rep["status"] != "ok":
                            V.violation(res, sig + ":" + rep["status"], "execution status %s" % rep["status"], replay)
                            continue
                        out = fsx.replies(rep, 0)
                        last = out[-1] if out else {"missing": True}
                        V.outcome(res, "failed-commit:%s" % classify(last))
                        # the temp area: nothing of this writer may stay (horizon for background work: 2 s)
                        left = None
                        for _ in range(40):
                            snap = fsutil.snapshot(cache) or {}
                            left = [x for x in snap if x.startswith("tmp/")]
                            if not left:
                                break
                            time.sleep(0.05)
                        if left:
                            V.violation(res, sig + ":temp-file-left", "after a commit that replied %s (rename answered errno %d) the temp area holds %s" % (classify(last), errno_, left), replay)
                        if "ok" not in last:
                            srv = ctx.srv("sync")
                            m = srv.call({"op": "metadata_sync", "cache": cache, "key": a})
                            if m.get("ok") is not None:
                                V.violation(res, sig + ":failed-but-mapped", "the commit failed (%s) but the key is mapped: %r" % (classify(last), m), replay)
    fsutil.wipe(cache)
    res["samples"].append({"kind": "failed commit (publishing rename fails)", "flavour": flavour})
    return res


def inflight_worker(ctx, job):
    """poll_write once, then drop (a) at once / (b) after the blocking task completed; wait for the background
    work; tmp/ must be empty and lookups unchanged."""
    res = V.new()
    flavour = job["flavour"]
    srv = ctx.srv(flavour)
    a, b, c = tables.key_family()
    for keyed in (True, False):
        for declared in (None, 8, 9, ref.MIB + 7):
            for n in (8, 70000):
                for delay in (0, 60):
                    for prior in ("cold", "warm"):
                        cache = ctx.fresh("c14f-")
                        if prior == "warm":
                            wr.do_write(srv, cache, side="a", entry="oneshot", key=a, n=8, tag=5)
                        before = fsutil.snapshot(cache)
                        req = {"op": "aw_open", "cache": cache, "opts": {} if declared is None else {"size": declared}}
                        if keyed:
                            req["key"] = a
                        rep = srv.call(req)
                        res["evals"] += 1
                        res["distinct"].add(V.h(flavour, keyed, declared, n, delay, prior))
                        case = {"flavour": flavour, "keyed": keyed, "declared": declared, "n": n, "delay_ms": delay, "prior": prior}
                        replay = {"engine": "seqx", "mode": "in-flight abandonment", "case": case}
                        if "ok" not in rep:
                            V.violation(res, "inflight:open-%s" % classify(rep), "open failed %r" % rep, replay)
                            continue
                        r = srv.call({"op": "w_poll_write_drop", "h": rep["ok"]["h"], "data": {"gen": [n, 5]}, "delay_ms": delay, "linger_ms": 3000, "tmp_dir": cache})
                        V.outcome(res, "polled-%s/%s" % ("pending" if r.get("ok", {}).get("pending") else "ready", "late-drop" if delay else "early-drop"))
                        if "ok" not in r or r.get("panics"):
                            V.violation(res, "inflight:%s" % classify(r), "poll/drop did not return normally: %r" % r, replay)
                            continue
                        # wait for the background work with an explicit horizon
                        deadline = time.time() + 2.0
                        while True:
                            after = fsutil.snapshot(cache)
                            left = [x for x in (after or {}) if x.startswith("tmp/")]
                            if not left or time.time() > deadline:
                                break
                            time.sleep(0.01)
                        if left:
                            V.violation(res, "inflight:temp-file-left:%s" % ("late-drop" if delay else "early-drop"), "temp file left 2 s after the writer was dropped: %s" % left, replay)
                        a1 = {k: v for k, v in (after or {}).items() if not k.startswith("tmp")}
                        b1 = {k: v for k, v in (before or {}).items() if not k.startswith("tmp")}
                        if a1 != b1:
                            V.violation(res, "inflight:cache-changed", "abandoned in-flight writer changed the cache: %s" % sorted(set(a1) ^ set(b1)), replay)
                        fsutil.wipe(cache)
    res["samples"].append({"kind": "in-flight", "flavour": flavour})
    return res


def inflight_fsx_worker(ctx, job):
    """The same scenario under the ptrace controller: the two completion orders are FORCED by hold rules —
    (A) the blocking task's write to the temp file is held until the other thread has dropped the writer (M2);
    (B) the dropping thread is held at M1 until the task has completed and its pool thread waits again."""
    import json as _json
    from vlib import fsx
    res = V.new()
    flavour = job["flavour"]
    a, b, c = tables.key_family()
    cache = ctx.path("c14x-cache")
    for keyed in (True, False):
        for declared in (None, ref.MIB + 7):
            for n in (8, 70000):
                for hold in ("bg-write-until-M2", "M1-until-bg-idle"):
                    for prior in ("cold", "warm"):
                        fsutil.wipe(cache)
                        if prior == "warm":
                            wr.do_write(ctx.srv("sync"), cache, side="s", entry="oneshot", key=a, n=8, tag=5)
                        before = fsutil.snapshot(cache)
                        req = {"op": "aw_open", "cache": cache, "opts": {} if declared is None else {"size": declared}}
                        if keyed:
                            req["key"] = a
                        prog = [req, {"op": "w_poll_write_drop", "h": {"ref": 0}, "data": {"gen": [n, 5]}, "delay_ms": 0, "linger_ms": 5000, "tmp_dir": cache}]
                        pf = ctx.path("prog-c14x.json")
                        with open(pf, "w") as fh:
                            _json.dump(prog, fh)
                        def _once():
                            fsutil.restore(cache, before)
                            if before is None:
                                fsutil.wipe(cache)
                            return fsx.run({"roots": [cache], "actors": [fsx.actor(flavour, "I", pf)], "timeout_ms": 15000, "hold": hold}, ctx.dir)
                        rep = fsx.confirmed(_once)
                        res["evals"] += 1
                        res["distinct"].add(V.h("fsx", flavour, keyed, declared, n, hold, prior))
                        case = {"flavour": flavour, "keyed": keyed, "declared": declared, "n": n, "hold": hold, "prior": prior}
                        replay = {"engine": "fsx", "mode": "in-flight abandonment (hold rules)", "case": case}
                        if rep["status"] != "ok":
                            V.violation(res, "inflight-fsx:%s:%s" % (hold, rep["status"]), "execution did not complete: %s %s" % (rep["status"], rep.get("error")), replay)
                            continue
                        out = fsx.replies(rep, 0)
                        if len(out) < 2 or "ok" not in out[-1] or out[-1].get("panics"):
                            V.violation(res, "inflight-fsx:%s:%s" % (hold, classify(out[-1]) if out else "no-reply"), "poll/drop did not return normally: %r" % (out[-1:],), replay)
                            continue
                        # which order actually happened (from the report): index of the temp-file write vs the M2 marker
                        widx = next((s_["step"] for s_ in rep["steps"] if s_["sys"] in ("write", "pwrite64") and "/tmp/.tmp" in (s_.get("fd_path") or "")), None)
                        m2 = next((m["after_steps"] for m in rep["markers"] if m["marker"] == "M2"), None)
                        order = "no-write-step" if widx is None else ("write-after-drop" if m2 is not None and m2 <= widx else "write-before-drop")
                        V.outcome(res, "fsx:%s:%s" % (hold, order))
                        want = "write-after-drop" if hold == "bg-write-until-M2" else "write-before-drop"
                        if order != want:
                            raise fsx.TracerError("hold rule %s did not produce its order (got %s)" % (hold, order))
                        after = fsutil.snapshot(cache)
                        left = [x for x in (after or {}) if x.startswith("tmp/")]
                        if left:
                            V.violation(res, "inflight-fsx:temp-file-left:%s" % order, "temp file left after the abandoned writer's background work finished: %s" % left, replay)
                        a1 = {k: v for k, v in (after or {}).items() if not k.startswith("tmp")}
                        b1 = {k: v for k, v in (before or {}).items() if not k.startswith("tmp")}
                        if a1 != b1:
                            V.violation(res, "inflight-fsx:cache-changed:%s" % order, "abandoned in-flight writer changed the cache: %s" % sorted(set(a1) ^ set(b1)), replay)
    fsutil.wipe(cache)
    res["samples"].append({"kind": "in-flight under fsx hold rules", "flavour": flavour})
    return res


def _inflight(ctx, job):
    if job.get("failed_commit"):
        return failed_commit_worker(ctx, job)
    return inflight_fsx_worker(ctx, job) if job.get("fsx") else inflight_worker(ctx, job)


def main(tier, seed=0):
    import checks.c16 as c16
    t0 = time.time()
    quick = tier == "quick"
    old = c16.worker
    c16.worker = _inflight
    try:
        total, merr_all = c16._collect(tier, [{"flavour": "astd"}, {"flavour": "tok"}, {"flavour": "astd", "fsx": True}, {"flavour": "tok", "fsx": True},
                                                    {"flavour": "sync", "failed_commit": True}, {"flavour": "astd", "failed_commit": True}, {"flavour": "tok", "failed_commit": True}], seed)
    finally:
        c16.worker = old
    total["extra"] = {"runs": {}}
    total["distinct"] = set(total["distinct"])
    capped_any = False
    runs = [C14Spec("astd", 3, False)] if quick else [C14Spec("astd", 4, True), C14Spec("tok", 3, True)]
    for spec in runs:
        agg, merr, capped, wall = seqx.bfs(spec, tier, level="model_checking", rule="", technique="", finish=False, budget_s=200 if quick else 2400)
        merr_all += merr
        capped_any |= capped
        agg["extra"]["episodes"] = len(spec.eps)
        total = merge(total, agg, "bfs-%s-depth%d-%d-episodes" % (spec.flavour, spec.depth, len(spec.eps)))
    return run.finish(PROP, tier, total, merr_all, time.time() - t0, level="model_checking",
                      rule="BFS state = (canonical disk, model); alphabet = 7 ordinary actions (writes d1/d2 under a/b, removals, remove_hash) + abandonment episodes "
                           "[sync/async x keyed/by-address x bytes equal to d1 / fresh x declared size none/correct/wrong x dropped after creation/1 chunk/2 chunks/flush/close] + "
                           "rejected commits [size, integrity, declared > 1 MiB, overflow in a later chunk] + linkers (link_to) opened, read (nothing / partly / fully) and dropped; after every transition lookups, listing, tmp/ and the content file set are compared with the model; "
                           "plus in-flight abandonment (poll_write once, drop before/after the blocking task completes) on async-std and tokio, plus commits that fail because the publishing rename fails (fault injection, 4 errnos, 3 flavours)",
                      technique="explicit-state breadth-first model checking of on-disk states with abandonment episodes as actions; in-flight case: both completion orders forced by the ptrace controller (fsx hold rules)",
                      assumptions=["in-flight case: the two orders (drop before / after the blocking task completes) are forced by fsx hold rules for plain writes (and checked from the step trace); for memory-mapped declared sizes, which issue no write system call, by a 60 ms delay",
                                   "data of a rejected commit may remain retrievable by address (it is mapped by no key)"],
                      seed=seed, capped=capped_any, jobs_done=len(runs) + 2, jobs_total=len(runs) + 2, exhaustive=not capped_any)
