"""C05 — a key lookup returns the most recent committed entry, or absent after removal.

Explicit-state BFS (seqx) over histories of writes / removals / foreign records on two sibling keys,
through sync and async entry points; every distinct state is observed through every lookup entry point
and compared with the dictionary model. Also evaluates C10's listing oracle and C03's content invariant
in every state.
"""
import os

from vlib import fsutil, ref, seqx, tables
from vlib.model import Model
from vlib.run import V, classify

PROP = "C05"

VALUES = {
    "v1": {"n": 0, "tag": 11, "time": 1000},   # the empty value
    "v2": {"n": 40, "tag": 22, "algo": "sha512", "time": 2 ** 64 + 4102444800000, "metadata": {"name": "long-record-é", "list": [1, 2.5, None]}, "raw_metadata": b"\x00\xff\x10"},
}


class C05Spec(seqx.Spec):
    prop = PROP
    sig_prefix = "hist"
    values = VALUES

    def __init__(self, flavour, depth, keys, oneshot=True, one_key=False):
        self.flavour = flavour
        self.depth = depth
        self.keys = keys
        self.oneshot = oneshot
        self.one_key = one_key

    def actions(self, state):
        ks = self.keys[:1] if self.one_key else self.keys[:2]
        out = []
        for k in ks:
            for v in ("v1", "v2"):
                for side in ("s", "a"):
                    out.append({"t": "W", "key": k, "val": v, "side": side, "how": "session"})
        for k in ks:
            for side in ("s", "a"):
                out.append({"t": "R", "key": k, "side": side})
        for k in ks:
            out.append({"t": "F", "host": k, "fkey": "foreign-key", "val": "v2"})
            out.append({"t": "F", "host": k, "fkey": "foreign-key", "val": None})
        if self.oneshot:
            for k in ks:
                for side in ("s", "a"):
                    out.append({"t": "W", "key": k, "val": "v1", "side": side, "how": "oneshot"})
        # the other ways an entry goes away: removal together with its content (both flavours), and its content removed by
        # address first (the keys may share one content file)
        for side in ("s", "a"):
            out.append({"t": "RF", "key": ks[0], "side": side})
        out.append({"t": "RH", "val": "v2", "side": "a"})
        # a write that is REJECTED (declared size missed): it is not a successful write, lookups must not see it
        for side in ("s", "a"):
            out.append({"t": "WREJ", "key": ks[0], "val": "v2", "side": side})
        return out

    def apply(self, ctx, res, srv, cache, action, model, replay):
        if action["t"] != "WREJ":
            return seqx.apply_standard(self, ctx, res, srv, cache, action, model, replay)
        v = self.values[action["val"]]
        n, tag = v["n"], v["tag"]
        pre = "sw_" if action["side"] == "s" else "aw_"
        ro = srv.call({"op": pre + "open", "cache": cache, "key": action["key"], "opts": {"size": n + 3, "algorithm": v.get("algo", "sha256")}})
        res["transitions"] += 1
        if "ok" not in ro:
            V.violation(res, "hist:rejected-write:open-%s" % classify(ro), "open failed: %r" % ro, dict(replay, reply=ro))
            return ro
        h = ro["ok"]["h"]
        srv.call({"op": "w_write_all", "h": h, "data": {"gen": [n, tag]}})
        rc = srv.call({"op": "w_commit", "h": h})
        res["transitions"] += 2
        if rc.get("err", {}).get("variant") != "SizeMismatch":
            V.violation(res, "hist:rejected-write:%s" % classify(rc), "a commit that misses its declared size replied %r" % rc, dict(replay, reply=rc))
        sri_ = ctx.sri(v.get("algo", "sha256"), ref.gen(n, tag))
        if sri_ not in model.content and os.path.exists(os.path.join(cache, ref.content_rel(sri_))):
            model.content[sri_] = ref.gen(n, tag)     # the bytes of a rejected commit may stay retrievable by address
        return rc

    def observe(self, ctx, res, srv, cache, model, replay):
        from vlib.model import observe_and_check
        return observe_and_check(ctx, res, srv, self.flavour, cache, model, list(self.keys) + ["foreign-key"], self.addrs(ctx),
                                 sig_prefix=self.sig_prefix, replay=replay)


def seeds_for(ctx_sri, keys):
    """Non-initial start states built with the reference codec (no library involved)."""
    a, b = keys[0], keys[1]
    out = [("empty", None, seqx.new_model())]
    d1 = ref.gen(VALUES["v1"]["n"], VALUES["v1"]["tag"])
    d2 = ref.gen(VALUES["v2"]["n"], VALUES["v2"]["tag"])
    s1 = ref.sri("sha256", d1)
    s2 = ref.sri("sha512", d2)

    def rec(key, sri, v):
        return {"key": key, "integrity": sri, "time": VALUES[v]["time"], "size": VALUES[v]["n"], "metadata": VALUES[v].get("metadata"),
                "raw_metadata": VALUES[v].get("raw_metadata")}

    # seed 2: reference-written cache with a tombstone, a torn fragment and a garbage line
    tomb = {"key": a, "integrity": None, "time": 7, "size": 0, "metadata": None, "raw_metadata": None}
    full = ref.encode_record(rec(a, s2, "v2"))
    bucket_a = ref.encode_record(rec(a, s1, "v1")) + ref.encode_record(tomb) + ref.encode_record(rec(a, s2, "v2"), variant=1) + \
        b"\n\xff\xfegarbage\x00line" + full[: len(full) // 2]
    bucket_b = ref.encode_record(rec(b, s1, "v1")) + full[:40]
    snap = {
        ref.bucket_rel(a): ("f", bucket_a),
        ref.bucket_rel(b): ("f", bucket_b),
        ref.content_rel(s1): ("f", d1),
        ref.content_rel(s2): ("f", d2),
    }
    for rel in list(snap):
        p = os.path.dirname(rel)
        while p:
            snap[p] = ("d",)
            p = os.path.dirname(p)
    m = seqx.new_model()
    m.content[s1] = d1
    m.content[s2] = d2
    m.insert(a, s2, size=40, time=VALUES["v2"]["time"], metadata=VALUES["v2"]["metadata"], raw_metadata=VALUES["v2"]["raw_metadata"])
    m.insert(b, s1, size=VALUES["v1"]["n"], time=1000)
    out.append(("ref-written+tombstone+torn+garbage", snap, m))
    return out


def main(tier, seed=0):
    keys = tables.sibling_keys(4, "k", 2)
    rcs = []
    runs = []
    if tier == "quick":
        runs.append((C05Spec("astd", 4, keys), True))
    else:
        runs.append((C05Spec("astd", 5, keys), True))
        runs.append((C05Spec("tok", 4, keys), True))
        runs.append((C05Spec("astd", 7, keys, oneshot=False, one_key=True), False))
    total = None
    import time
    t0 = time.time()
    merr_all = []
    capped_any = False
    for spec, with_seeds in runs:
        seeds = seeds_for(None, keys) if with_seeds else None
        agg, merr, capped, wall = seqx.bfs(spec, tier, seeds=seeds, level="model_checking", rule="", technique="", finish=False,
                                           budget_s=240 if tier == "quick" else 1500)
        merr_all += merr
        capped_any |= capped
        tag = "%s-depth%d%s" % (spec.flavour, spec.depth, "-onekey" if spec.one_key else "")
        if total is None:
            total = agg
            total["extra"] = {"runs": {tag: agg["extra"]}}
            total["distinct"] = set(agg["distinct"])
        else:
            total["evals"] += agg["evals"]
            total["transitions"] += agg["transitions"]
            total["states"] += agg["states"]
            total["violations"] += agg["violations"]
            total["distinct"] |= set(tag + k for k in agg["distinct"])
            for k, v in agg["outcomes"].items():
                total["outcomes"][k] = total["outcomes"].get(k, 0) + v
            total["samples"] += agg["samples"][:1]
            total["extra"]["runs"][tag] = agg["extra"]
    from vlib import run
    return run.finish(PROP, tier, total, merr_all, time.time() - t0, level="model_checking",
                      rule="state = (canonical on-disk cache, model); transition = one action of the alphabet {session write of v1/v2 under a/b via sync/async, "
                           "one-shot write, remove via sync/async, foreign live/tombstone record appended to a's/b's bucket}; every distinct state is observed "
                           "through metadata*, index::find*, read*, streamed Reader, list_sync, exists*, read_hash* and compared with the dictionary model",
                      technique="explicit-state breadth-first model checking of the real implementation (on-disk states), oracle = dictionary model",
                      assumptions=["keys a,b are forced siblings under one index-v5/aa/bb directory", "tombstone times and wall-clock times are abstracted in the state key (never read by the library)"],
                      seed=seed, capped=capped_any, jobs_done=len(runs), jobs_total=len(runs), exhaustive=not capped_any)
