"""C17 — the on-disk layout is the fixed, versioned cacache format, readable by others.

Two-way conformance between the library and an independent implementation of the format (vlib/ref.py):
 dir 1: the library writes (BFS histories over writes/removals; hostile keys x metadata x algorithms), then
        every path and every bucket byte is checked against the documented grammar and decode(tree) = model;
 dir 2: the reference encoder writes every history of depth <= D (two serialiser variants: field order,
        separators, ASCII escaping) and hostile keys x metadata, then the library's observations in all three
        flavours must equal the model.
"""
import itertools
import os
import time

from vlib import fsutil, ref, run, seqx, tables, wr
from vlib.model import observe_and_check
from vlib.ops import is_async
from vlib.run import V, classify
from checks.c09 import merge
from checks.c16 import _collect as _unused  # noqa

PROP = "C17"

VALUES = {
    "v1": {"n": 4, "tag": 1, "time": 1700000000000, "algo": "sha256"},
    "v2": {"n": 17, "tag": 2, "time": 2 ** 64 + 5, "algo": "sha512", "metadata": {"é": ["tab\t", "nl\n", 2 ** 53 + 1, 0.5]}, "raw_metadata": b"\x00\xff"},
    "v3": {"n": 0, "tag": 3, "time": 0, "algo": "xxh3", "metadata": "str"},
}


class C17Spec(seqx.Spec):
    prop = PROP
    sig_prefix = "layout"
    values = VALUES

    def __init__(self, flavour, depth):
        self.flavour = flavour
        self.depth = depth
        a, b, c = tables.key_family()
        self.keys = [a, b, "kéy\twith\nodd \"chars\""]

    def actions(self, state):
        out = []
        for k in self.keys:
            for v in VALUES:
                for side in ("s", "a"):
                    out.append({"t": "W", "key": k, "val": v, "side": side, "how": "session"})
            for side in ("s", "a"):
                out.append({"t": "R", "key": k, "side": side})
        out.append({"t": "RF", "key": self.keys[0], "side": "s"})
        out.append({"t": "RH", "val": "v1", "side": "a"})
        return out

    def extra_state_check(self, ctx, res, cache, snap, model, replay):
        check_tree(ctx, res, snap, model, replay)


KINDS = ["unexpected top-level", "left-over temp", "directory too deep", "non-regular entry", "bucket path not", "does not start with a newline",
         "not UTF-8", "not <64 hex>", "raw tab/CR", "checksum is not", "JSON does not parse", "record fields", "whose SHA-1 path", "not a well-formed single hash",
         "reference decoder rejects", "does not sit at the digest"]


def problem_kind(pr):
    for k in KINDS:
        if k in pr:
            return k.replace(" ", "-")
    return "other"


def check_tree(ctx, res, snap, model, replay):
    probs = ref.strict_tree_check(snap, ctx.xxh3)
    for pr in probs[:3]:
        r = dict(replay)
        r["problem"] = pr
        V.violation(res, "layout:grammar:%s" % problem_kind(pr), pr, r)
    live = ref.tree_live(snap or {})
    want = {k: e for k, e in model.index.items()}
    if set(live) != set(want):
        r = dict(replay)
        V.violation(res, "layout:reference-decode:key-set", "reference decoder finds keys %s, model has %s" % (sorted(live), sorted(want)), r)
        return
    for k, e in live.items():
        w = want[k]
        t = w["time"]
        tok = (t[0] <= e["time"] <= t[1]) if isinstance(t, tuple) else e["time"] == t
        if not (e["integrity"] == w["integrity"] and e["size"] == w["size"] and tok and ref.json_equal(e["metadata"], w["metadata"]) and e["raw_metadata"] == w["raw_metadata"]):
            V.violation(res, "layout:reference-decode:entry", "reference decoder reads %r as %s, model says %s" % (k, e, w), dict(replay))
            return
    _, content = ref.decode_tree(snap or {})
    wantc = {ref.content_rel(s) for s in model.content}
    if set(content) != wantc:
        V.violation(res, "layout:content-paths", "content files %s, expected %s" % (sorted(content), sorted(wantc)), dict(replay))


# ------------------------------------------------------------------ direction 1: input enumeration

def dir1_worker(ctx, job):
    res = V.new()
    flavour, side = job["flavour"], job["side"]
    srv = ctx.srv(flavour)
    metas = tables.json_values(full=ctx.tier != "quick")
    keys = tables.KEYS_HOSTILE
    cache = ctx.fresh("c17-")
    model = seqx.new_model()
    i = job["offset"]
    cases = []
    for ki, key in enumerate(keys):
        cases.append((key, metas[(i + ki * 7) % len(metas)], tables.TIMES[(i + ki) % len(tables.TIMES)], tables.RAW_METAS[(i + ki) % len(tables.RAW_METAS)] if ki % 3 == 0 else None))
    for mi, m in enumerate(metas):
        if mi % job["stride"] == job["offset"] % job["stride"]:
            cases.append(("meta-key-%d" % mi, m, mi, None))
    for ci, (key, meta, t, raw) in enumerate(cases):
        algo = ref.ALGOS[ci % 5]
        n = (ci * 3) % 11
        opts = {"time": str(t), "metadata": meta}
        if raw is not None:
            opts["raw_metadata"] = raw.hex()
        rep, trace = wr.do_write(srv, cache, side=side, entry="open", key=key, algo=algo, n=n, tag=ci % 200, opts=opts)
        res["evals"] += 1
        res["distinct"].add(V.h(flavour, side, key, repr(meta), t, raw))
        data = ref.gen(n, ci % 200)
        sri = ctx.sri(algo, data)
        replay = {"engine": "seqx", "flavour": flavour, "side": side, "key": key, "metadata": meta, "time": t, "raw": raw, "algo": algo, "n": n}
        if rep.get("ok") != sri:
            V.violation(res, "layout:write:%s" % classify(rep), "write failed: %s" % rep, replay)
            continue
        model.write(key, sri, data, size=n, time=t, metadata=meta, raw_metadata=raw)
        if ci % 9 == 4:
            r2 = srv.call({"op": "remove_sync" if side == "s" else "remove", "cache": cache, "key": key})
            model.remove(key)
        if ci % 10 == 0 or ci == len(cases) - 1:
            snap = fsutil.snapshot(cache)
            check_tree(ctx, res, snap, model, replay)
            V.outcome(res, "tree-checked")
    fsutil.wipe(cache)
    res["samples"].append({"dir": 1, "flavour": flavour, "side": side, "cases": len(cases), "example_key": cases[5][0], "example_metadata": cases[5][1]})
    return res


# ------------------------------------------------------------------ direction 2: reference writes, library reads

def build_ref_tree(history, variant):
    """history: list of ('W', key, valname) | ('R', key). Returns (snapshot, model)."""
    snap = {}
    m = seqx.new_model()
    t = 50
    for h in history:
        if h[0] == "W":
            _, key, v = h
            val = VALUES[v] if isinstance(v, str) else v
            data = ref.gen(val["n"], val["tag"])
            sri = ref.sri(val["algo"], data) if val["algo"] != "xxh3" else val["sri"]
            e = {"key": key, "integrity": sri, "time": val["time"], "size": val["n"], "metadata": val.get("metadata"), "raw_metadata": val.get("raw_metadata")}
            rel = ref.bucket_rel(key)
            snap[rel] = ("f", snap.get(rel, ("f", b""))[1] + ref.encode_record(e, variant))
            snap[ref.content_rel(sri)] = ("f", data)
            m.write(key, sri, data, size=val["n"], time=val["time"], metadata=val.get("metadata"), raw_metadata=val.get("raw_metadata"))
        else:
            _, key = h
            t += 1
            e = {"key": key, "integrity": None, "time": t, "size": 0, "metadata": None, "raw_metadata": None}
            rel = ref.bucket_rel(key)
            snap[rel] = ("f", snap.get(rel, ("f", b""))[1] + ref.encode_record(e, variant))
            m.remove(key)
    ref.add_parent_dirs(snap)
    return snap, m


def dir2_worker(ctx, job):
    res = V.new()
    cache = ctx.fresh("c17r-")
    for hist in job["histories"]:
        hist = [tuple(h) for h in hist]
        vals = dict(VALUES)
        # xxh3 addresses need the crate
        hh = []
        for h in hist:
            if h[0] == "W":
                v = dict(VALUES[h[2]]) if isinstance(h[2], str) else dict(h[2])
                if v["algo"] == "xxh3":
                    v["sri"] = ctx.sri("xxh3", ref.gen(v["n"], v["tag"]))
                hh.append(("W", h[1], v))
            else:
                hh.append(h)
        for variant in (0, 1):
            snap, model = build_ref_tree(hh, variant)
            keys = sorted(set(h[1] for h in hist))
            addrs = sorted(model.content) + [ctx.sri("sha256", b"never stored")]
            for flavour in job["flavours"]:
                fsutil.restore(cache, snap)
                res["evals"] += 1
                res["distinct"].add(V.h("d2", repr(hist), variant, flavour))
                replay = {"engine": "seqx", "direction": "reference writes, library reads", "history": hist, "variant": variant, "flavour": flavour}
                ok = observe_and_check(ctx, res, ctx.srv(flavour), flavour, cache, model, keys, addrs, sig_prefix="layout:ref-written", replay=replay)
                V.outcome(res, "ref-tree-read-identically" if ok else "ref-tree-read-differently")
    fsutil.wipe(cache)
    res["samples"].append({"dir": 2, "history": job["histories"][0]})
    return res


def sri_edge_worker(ctx, job):
    """Reference-written bucket: a good record for the key (its content stored), then a record whose integrity string
    sits at an edge of 'can name a content file'. The reference decides whether the second record counts; every lookup
    of every flavour and the listing must follow it (the later record if usable, else the earlier one)."""
    res = V.new()
    cache = ctx.fresh("c17e-")
    key = "edge-key"
    data = ref.gen(4, 1)
    good = ref.sri("sha256", data)
    for x in job["strings"]:
        usable = ref.usable_sri(x)
        recs = [{"key": key, "integrity": good, "time": 50, "size": 4, "metadata": None, "raw_metadata": None},
                {"key": key, "integrity": x, "time": 60, "size": 3, "metadata": {"edge": True}, "raw_metadata": None}]
        for order in ("good-then-edge", "edge-only"):
            snap = {ref.bucket_rel(key): ("f", b"".join(ref.encode_record(r) for r in (recs if order == "good-then-edge" else recs[1:]))),
                    ref.content_rel(good): ("f", data)}
            ref.add_parent_dirs(snap)
            want = recs[1] if usable else (recs[0] if order == "good-then-edge" else None)
            for flavour in job["flavours"]:
                fsutil.restore(cache, snap)
                srv = ctx.srv(flavour)
                res["evals"] += 1
                res["distinct"].add(V.h("edge", x, order, flavour))
                replay = {"engine": "seqx", "direction": "reference writes, library reads", "integrity": x, "reference_says_usable": usable, "bucket": order, "flavour": flavour}
                ops_ = ["metadata_sync", "index_find"] + (["metadata", "index_find_async"] if is_async(flavour) else [])
                for op in ops_ + ["list_sync"]:
                    rep = srv.call({"op": op, "cache": cache, "key": key})
                    res["transitions"] += 1
                    if "ok" not in rep or rep.get("panics"):
                        V.violation(res, "layout:integrity-edge:%s:%s" % (op, classify(rep)), "%s on a bucket holding integrity %r did not succeed: %r" % (op, x, rep), replay)
                        continue
                    if op == "list_sync":
                        items = [i["ok"] for i in rep["ok"] if "ok" in i]
                        got = items[0] if len(items) == 1 else (None if not items else "several")
                        if any("err" in i for i in rep["ok"]):
                            got = "error-item"
                    else:
                        got = rep["ok"]
                    if isinstance(got, dict):
                        same = want is not None and sorted(got["integrity"].split()) == sorted(want["integrity"].split()) and got["size"] == want["size"] and str(got["time"]) == str(want["time"])
                    else:
                        same = got is None and want is None
                    V.outcome(res, "edge:%s" % ("usable" if usable else "unusable"))
                    if not same:
                        V.violation(res, "layout:integrity-edge:%s:%s" % (op, "reference-usable" if usable else "reference-unusable"),
                                    "integrity %r (reference: %s), bucket %s: %s returned %r, expected %r" % (x, "usable" if usable else "unusable", order, op,
                                                                                                                 got if not isinstance(got, dict) else (got["integrity"], got["size"]), want and (want["integrity"], want["size"])), replay)
    fsutil.wipe(cache)
    res["samples"].append({"dir": "2e", "integrity_strings": job["strings"][:5]})
    return res


def worker(ctx, job):
    if job["kind"] == "sri-edge":
        return sri_edge_worker(ctx, job)
    return dir1_worker(ctx, job) if job["kind"] == "dir1" else dir2_worker(ctx, job)


def histories(depth, keys):
    acts = [("W", k, v) for k in keys for v in VALUES] + [("R", k) for k in keys]
    out = []
    for d in range(1, depth + 1):
        out += [list(h) for h in itertools.product(acts, repeat=d)]
    return out


def main(tier, seed=0):
    t0 = time.time()
    quick = tier == "quick"
    jobs = []
    for flavour in ("sync", "astd", "tok"):
        for side in (["s"] if not is_async(flavour) else (["a"] if quick else ["s", "a"])):
            stride = 8 if quick else 2
            for off in range(stride if not quick else 2):
                jobs.append({"kind": "dir1", "flavour": flavour, "side": side, "offset": off, "stride": stride})
    a, b, c = tables.key_family()
    hs = histories(3 if quick else 4, [a, "kéy\t\n\""])
    # hostile keys and metadata written by the reference
    metas = tables.json_values(full=not quick)
    singles = []
    for i, k in enumerate(tables.KEYS_HOSTILE):
        singles.append([("W", k, {"n": i % 7, "tag": i, "time": tables.TIMES[i % len(tables.TIMES)], "algo": ref.ALGOS[i % 5], "metadata": metas[(i * 5) % len(metas)],
                                  "raw_metadata": tables.RAW_METAS[i % len(tables.RAW_METAS)] if i % 2 else None})])
    for i, m in enumerate(metas[:: (6 if quick else 1)]):
        singles.append([("W", "m%d" % i, {"n": 2, "tag": 4, "time": i, "algo": "sha256", "metadata": m})])
    allh = hs + singles
    flavours = ["sync", "astd", "tok"]
    chunk = max(1, len(allh) // 64)
    for i in range(0, len(allh), chunk):
        jobs.append({"kind": "dir2", "histories": allh[i:i + chunk], "flavours": flavours})
    for i in range(0, len(tables.SRI_EDGE), 6):
        jobs.append({"kind": "sri-edge", "strings": tables.SRI_EDGE[i:i + 6], "flavours": flavours})
    import checks.c16 as c16
    old = c16.worker
    c16.worker = worker
    try:
        total, merr_all = c16._collect(tier, jobs, seed)
    finally:
        c16.worker = old
    total["extra"] = {"runs": {}, "dir1_jobs": sum(1 for j in jobs if j["kind"] == "dir1"), "dir2_histories": len(allh)}
    total["distinct"] = set(total["distinct"])
    capped_any = False
    runs = [C17Spec("astd", 3)] if quick else [C17Spec("astd", 4), C17Spec("tok", 3)]
    for spec in runs:
        agg, merr, capped, wall = seqx.bfs(spec, tier, level="model_checking", rule="", technique="", finish=False, budget_s=200 if quick else 2400)
        merr_all += merr
        capped_any |= capped
        total = merge(total, agg, "bfs-%s-depth%d" % (spec.flavour, spec.depth))
    return run.finish(PROP, tier, total, merr_all, time.time() - t0, level="model_checking",
                      rule="dir 1: every BFS state (alphabet: writes of 3 values/3 algorithms under 3 keys incl. non-ASCII, removals, remove_fully, remove_hash; sync+async) "
                           "and every hostile-key x metadata x timestamp x raw-metadata write is checked byte for byte against the documented grammar and decoded by the "
                           "reference decoder = model; dir 2: every history of depth <= D over {W(k,v),R(k)} and every hostile key / metadata value is encoded by the reference "
                           "writer in two serialiser variants and observed through every lookup entry point of sync, async-std and tokio builds = model",
                      technique="two-way trace conformance between the implementation and an independent format codec over exhaustively enumerated histories",
                      assumptions=["the reference codec in vlib/ref.py is the documented format (SHA-1 bucket path, newline + sha256hex + tab + JSON, content-v2/<algo>/<hex split>)",
                                   "byte identity between the two writers is not required (field order and number formatting are not fixed by the property)"],
                      seed=seed, capped=capped_any, jobs_done=len(jobs) + len(runs), jobs_total=len(jobs) + len(runs), exhaustive=not capped_any)
