"""C20 — no public call panics, aborts or hangs; every failure is a returned error.

(1) totality re-run: the workers of the input/fault-enumeration drivers (C01, C02, C06, C08, C11, C14, C18, C19) are
    executed again and judged by the totality oracle only (a reply that is neither Ok nor Err, a background panic,
    a dead server, a watchdog expiry).
(2) input shapes the property names: zero-length data through every writer, declared size delivered in 2-4
    chunks, more / fewer bytes than declared, empty write(&[]), operations on a closed writer, reads after EOF.
(3) on-disk states: structural states (bucket path / content path / tmp / index-v5 / content-v2 / the cache root
    being a directory, a regular file, a dangling symlink, a symlink loop, an unreadable directory) and buckets
    holding checksum-valid records with degenerate payloads (empty / unknown-algorithm / 1-byte-digest / non-base64
    integrity, 2 MiB metadata, 200-deep JSON nesting, size 2^64-1, time 2^128-1, a 3 MiB single line, array-form
    record); on each state a battery of every public operation runs in every flavour under a watchdog. A hang is
    only reported after it reproduced on a fresh server.
"""
import importlib
import os
import time

from vlib import fsutil, ref, run, tables, wr
from vlib.ops import is_async
from vlib.run import V, classify

PROP = "C20"
KEY = "c20-key"
DATA = {"n": 10, "tag": 151}
ABNORMAL = ("Panic", "Hang", "Died", "abnormal", "did-not-return", "process-died", "timeout")


def sri():
    return ref.sri("sha256", ref.gen(DATA["n"], DATA["tag"]))


def battery(flavour, side, cache, aux):
    s = side == "s"
    suf = "_sync" if s else ""
    g = {"gen": [DATA["n"], DATA["tag"]]}
    dest = os.path.join(aux, "dest")
    ops = [
        ("metadata", {"op": "metadata" + suf, "cache": cache, "key": KEY}),
        ("index_find", {"op": "index_find" if s else "index_find_async", "cache": cache, "key": KEY}),
        ("read", {"op": "read" + suf, "cache": cache, "key": KEY}),
        ("read_hash", {"op": "read_hash" + suf, "cache": cache, "sri": sri()}),
        ("stream", None),
        ("exists", {"op": "exists" + suf, "cache": cache, "sri": sri()}),
        ("list", {"op": "list_sync", "cache": cache}),
        ("copy", {"op": "copy" + suf, "cache": cache, "key": KEY, "to": dest}),
        ("copy_unchecked", {"op": "copy_unchecked" + suf, "cache": cache, "key": KEY, "to": dest}),
        ("copy_hash", {"op": "copy_hash" + suf, "cache": cache, "sri": sri(), "to": dest}),
        ("hard_link", {"op": "hard_link" + suf, "cache": cache, "key": KEY, "to": dest}),
        ("reflink", {"op": "reflink" + suf, "cache": cache, "key": KEY, "to": dest}),
        ("write_hash", {"op": "write_hash" + suf, "cache": cache, "data": g}),
        ("write", {"op": "write" + suf, "cache": cache, "key": KEY, "data": g}),
        ("writer", None),
        ("index_insert", {"op": "index_insert" if s else "index_insert_async", "cache": cache, "key": KEY, "opts": {"integrity": sri(), "time": "1"}}),
        ("link_to", {"op": "link_to" + suf, "cache": cache, "key": KEY + "-l", "target": os.path.join(aux, "target")}),
        ("remove", {"op": "remove" + suf, "cache": cache, "key": KEY}),
        ("remove_hash", {"op": "remove_hash" + suf, "cache": cache, "sri": sri()}),
        ("remove_fully", {"op": "remove_opts" + suf, "cache": cache, "key": KEY, "fully": True}),
        ("clear", {"op": "clear" + suf, "cache": cache}),
    ]
    return ops


def run_op(srv, side, cache, name, req):
    """Returns the list of replies of one battery item."""
    if name == "stream":
        rep = srv.call({"op": ("sr_" if side == "s" else "ar_") + "open", "cache": cache, "key": KEY})
        if "ok" in rep:
            return [rep, srv.call({"op": "r_stream", "h": rep["ok"]["h"], "n": 3})]
        return [rep]
    if name == "writer":
        rep = srv.call({"op": ("sw_" if side == "s" else "aw_") + "open", "cache": cache, "key": KEY, "opts": {"size": DATA["n"]}})
        out = [rep]
        if "ok" in rep:
            h = rep["ok"]["h"]
            out.append(srv.call({"op": "w_write_all", "h": h, "data": {"gen": [DATA["n"], DATA["tag"]]}}))
            if "hang" not in out[-1] and "died" not in out[-1]:
                out.append(srv.call({"op": "w_commit", "h": h}))
        return out
    return [srv.call(req)]


def degenerate_records():
    def rec(integ, **kw):
        d = {"key": KEY, "integrity": integ, "time": kw.get("time", 3), "size": kw.get("size", 1), "metadata": kw.get("metadata"), "raw_metadata": kw.get("raw_metadata")}
        return d
    import json
    out = {
        "integrity-empty": rec(""),
        "integrity-unknown-algorithm": rec("md5-1B2M2Y8AsgTpgAmY7PhCfg=="),
        "integrity-one-byte-digest": rec("sha256-AA=="),
        "integrity-empty-digest": rec("sha256-"),
        "integrity-not-base64": rec("sha256-!!!not base64!!!"),
        "integrity-no-dash": rec("sha256"),
        "integrity-multi-one-bad": rec("sha256-AA== sha1-2jmj7l5rSw0yVb/vlWAYkK/YBwk="),
        "integrity-whitespace": rec("   "),
        "integrity-bad-last-symbol": rec("sha256-AB=="),
        "integrity-bad-alphabet": rec("sha256-@@@@"),
        "integrity-bad-padding": rec("sha256-AAA"),
        "integrity-two-bytes": rec("sha1-AAA="),
        "integrity-valid-then-garbage": rec(sri() + " sha1-@"),
        "metadata-2MiB": rec(sri(), metadata="x" * (2 * ref.MIB)),
        "size-u64-max": rec(sri(), size=2 ** 64 - 1),
        "time-u128-max": rec(sri(), time=2 ** 128 - 1),
        "raw-metadata-64KiB": rec(sri(), raw_metadata=bytes(65536)),
    }
    lines = {name: ref.encode_record(r) for name, r in out.items()}
    deep = "[" * 200 + "]" * 200
    js = '{"key":"%s","integrity":"%s","time":1,"size":1,"metadata":%s,"raw_metadata":null}' % (KEY, sri(), deep)
    lines["metadata-200-deep"] = ("\n" + ref.sha256hex(js.encode()) + "\t" + js).encode()
    js = '["%s","%s",1,1,null,null]' % (KEY, sri())
    lines["record-as-array"] = ("\n" + ref.sha256hex(js.encode()) + "\t" + js).encode()
    js = '{"key":"%s","integrity":null,"time":1,"size":1,"metadata":null}' % KEY
    lines["record-missing-optional-field"] = ("\n" + ref.sha256hex(js.encode()) + "\t" + js).encode()
    js = '{"key":"%s","integrity":"%s","time":1.5,"size":-1,"metadata":null,"raw_metadata":[256]}' % (KEY, sri())
    lines["record-wrong-types"] = ("\n" + ref.sha256hex(js.encode()) + "\t" + js).encode()
    lines["line-3MiB"] = b"\n" + b"y" * (3 * ref.MIB)
    lines["line-3MiB-no-leading-newline"] = b"z" * (3 * ref.MIB)
    return lines


STRUCT_PLACES = ["bucket", "content", "tmp", "index-v5", "content-v2", "root", "bucket-parent", "content-algo-dir"]
STRUCT_KINDS = ["dir", "file", "dangling-symlink", "symlink-loop", "unreadable-dir", "symlink-to-dir", "symlink-to-ancestor", "extra-symlink-to-ancestor"]


def place_path(cache, place):
    return {
        "bucket": os.path.join(cache, ref.bucket_rel(KEY)),
        "content": os.path.join(cache, ref.content_rel(sri())),
        "tmp": os.path.join(cache, "tmp"),
        "index-v5": os.path.join(cache, ref.INDEX_DIR),
        "content-v2": os.path.join(cache, ref.CONTENT_DIR),
        "root": cache,
        "bucket-parent": os.path.dirname(os.path.join(cache, ref.bucket_rel(KEY))),
        "content-algo-dir": os.path.join(cache, ref.CONTENT_DIR, "sha256"),
    }[place]


def make_struct(cache, aux, place, kind, base_snap):
    fsutil.restore(cache, base_snap)
    p = place_path(cache, place)
    fsutil.wipe(p)
    os.makedirs(os.path.dirname(p), exist_ok=True)
    if kind == "dir":
        os.makedirs(p)
    elif kind == "file":
        with open(p, "wb") as fh:
            fh.write(b"not what you expect\n")
    elif kind == "dangling-symlink":
        os.symlink(os.path.join(aux, "does-not-exist"), p)
    elif kind == "symlink-loop":
        os.symlink(p, p)
    elif kind == "unreadable-dir":
        os.makedirs(p)
        os.chmod(p, 0)
    elif kind == "symlink-to-ancestor":
        # the place itself becomes a symlink to the directory two levels up (a directory cycle)
        os.symlink(os.path.dirname(os.path.dirname(p)) or "/", p)
    elif kind == "extra-symlink-to-ancestor":
        # the place stays as it was; next to it sits an extra symlink pointing back at an ancestor directory
        fsutil.restore(cache, base_snap)
        os.makedirs(os.path.dirname(p), exist_ok=True)
        extra = os.path.join(os.path.dirname(p), "cycle")
        if not os.path.lexists(extra):
            os.symlink(os.path.dirname(os.path.dirname(p)) or "/", extra)
    elif kind == "symlink-to-dir":
        os.makedirs(os.path.join(aux, "elsewhere"), exist_ok=True)
        os.symlink(os.path.join(aux, "elsewhere"), p)


def state_worker(ctx, job):
    res = V.new()
    flavour = job["flavour"]
    side = "s" if flavour == "sync" else "a"
    srv = ctx.srv(flavour, slot=4)
    srv.timeout = 6.0
    setup = ctx.srv("sync")
    cache = ctx.fresh("c20-")
    aux = ctx.fresh("c20aux-")
    os.makedirs(aux)
    with open(os.path.join(aux, "target"), "wb") as fh:
        fh.write(b"link target")
    # base: a healthy cache with the key present
    wr.do_write(setup, cache, side="s", entry="oneshot", key=KEY, n=DATA["n"], tag=DATA["tag"])
    wr.do_write(setup, cache, side="s", entry="oneshot", key="other", n=3, tag=1)
    base_snap = fsutil.snapshot(cache)
    states = []
    if job["kind"] == "struct":
        for place in job["places"]:
            for kind in STRUCT_KINDS:
                if kind.endswith("symlink-to-ancestor") and place in ("root", "tmp", "index-v5", "content-v2"):
                    continue   # the ancestor would lie outside the cache under test (clear would then wipe the scratch area)
                states.append(("struct:%s=%s" % (place, kind), ("struct", place, kind)))
    else:
        for name, line in degenerate_records().items():
            if name in job["records"]:
                for pos in ("appended", "only"):
                    states.append(("record:%s:%s" % (name, pos), ("record", line, pos)))
    for sname, spec in states:
        for opname, req in battery(flavour, side, cache, aux):
            attempts = 0
            while True:
                attempts += 1
                # build the state afresh for every operation
                fsutil.wipe(cache)
                if spec[0] == "struct":
                    make_struct(cache, aux, spec[1], spec[2], base_snap)
                else:
                    fsutil.restore(cache, base_snap)
                    bp = os.path.join(cache, ref.bucket_rel(KEY))
                    with open(bp, "ab" if spec[2] == "appended" else "wb") as fh:
                        fh.write(spec[1])
                fsutil.wipe(os.path.join(aux, "dest"))
                reps = run_op(srv, side, cache, opname, req)
                hung = any("hang" in r for r in reps)
                if hung and attempts == 1:
                    continue  # confirm on a fresh server (the client restarted it)
                break
            res["evals"] += 1
            res["transitions"] += len(reps)
            res["distinct"].add(V.h(flavour, sname, opname))
            for r in reps:
                cls = classify(r)
                V.outcome(res, cls if cls in ("Ok", "Panic", "Hang") or cls.startswith("Died") else "Err")
                if not run.is_total(r):
                    kind = sname.split(":")[0] + ":" + (sname.split(":")[1])
                    V.violation(res, "total:%s/%s:%s:%s" % (opname, side, kind, "Hang" if "hang" in r else cls),
                                "%s on state %s (%s): %s" % (opname, sname, flavour, _short(r)),
                                {"engine": "seqx", "flavour": flavour, "state": sname, "op": opname, "request": req, "reply": r})
                    break
    # restore permissions so that the scratch tree can be removed
    fsutil.wipe(cache)
    fsutil.wipe(aux)
    res["samples"].append({"flavour": flavour, "kind": job["kind"], "states": [s[0] for s in states][:4], "battery": [b[0] for b in battery(flavour, side, cache, aux)]})
    return res


def shapes_worker(ctx, job):
    """Input shapes named by the property, through every writer / reader of the flavour."""
    res = V.new()
    flavour, side = job["flavour"], job["side"]
    srv = ctx.srv(flavour, slot=4)
    srv.timeout = 8.0
    cache = ctx.fresh("c20s-")
    s = side == "s"
    pre = "sw_" if s else "aw_"

    def check(rep, what, case):
        res["evals"] += 1
        res["transitions"] += 1
        V.outcome(res, classify(rep) if classify(rep) in ("Ok", "Panic", "Hang") else "Err")
        if not run.is_total(rep):
            V.violation(res, "total:shape:%s/%s:%s" % (what, side, "Hang" if "hang" in rep else classify(rep)), "%s: %s" % (case, _short(rep)),
                        {"engine": "seqx", "flavour": flavour, "side": side, "case": case, "reply": rep})
            return False
        return True

    for keyed in (True, False):
        for declared in (None, 0, 1, 4, 5, 6, ref.MIB, ref.MIB + 1):
            for chunks in ([], [0], [5], [1, 4], [2, 2, 1], [1, 1, 1, 2], [0, 5, 0], [6], [3, 4], [3], [5, 5]):
                case = {"keyed": keyed, "declared": declared, "chunks": chunks}
                res["distinct"].add(V.h(flavour, side, keyed, declared, tuple(chunks)))
                req = {"op": pre + "open", "cache": cache, "opts": {} if declared is None else {"size": declared}}
                if keyed:
                    req["key"] = "shape"
                rep = srv.call(req)
                if not check(rep, "open", case) or "ok" not in rep:
                    continue
                h = rep["ok"]["h"]
                alive = True
                n = sum(chunks)
                off = 0
                for c in chunks:
                    r = srv.call({"op": "w_write", "h": h, "data": {"gen": [max(n, 1), 3, off, c]}})
                    off += c
                    if not check(r, "write-chunk-declared-%s" % ("none" if declared is None else "le1MiB" if declared <= ref.MIB else "gt1MiB"), case):
                        alive = "hang" not in r and "died" not in r
                        break
                if alive:
                    check(srv.call({"op": "w_flush", "h": h}), "flush", case)
                    check(srv.call({"op": "w_commit", "h": h}), "commit", case)
        # closed writer (async): every later call must answer with an error value
        if not s:
            rep = srv.call({"op": "aw_open", "cache": cache, "opts": {}, **({"key": "closed"} if keyed else {})})
            if "ok" in rep:
                h = rep["ok"]["h"]
                check(srv.call({"op": "w_write_all", "h": h, "data": {"gen": [4, 1]}}), "write", "before close")
                check(srv.call({"op": "w_close", "h": h}), "close", "close")
                check(srv.call({"op": "w_close", "h": h}), "close-twice", "close twice")
                check(srv.call({"op": "w_write", "h": h, "data": {"gen": [4, 1]}}), "write-after-close", "write after close")
                check(srv.call({"op": "w_flush", "h": h}), "flush-after-close", "flush after close")
                check(srv.call({"op": "w_commit", "h": h}), "commit-after-close", "commit after close")
    # the cache is cleared / its temp area removed / the whole directory removed WHILE a write handle is open: every later
    # call on the handle returns a value (an error is fine, spinning or panicking is not)
    for keyed in (True, False):
        for declared in (None, 7, ref.MIB + 3):
            for wipe in ("clear", "clear-other-side", "rm-tmp", "rm-cache", "tmp-is-a-file"):
                for when in ("before-write", "after-write"):
                    c2 = ctx.fresh("c20w-")
                    case = {"keyed": keyed, "declared": declared, "cache_disappears_by": wipe, "when": when}
                    res["distinct"].add(V.h(flavour, side, "wiped", keyed, declared, wipe, when))
                    req = {"op": pre + "open", "cache": c2, "opts": {} if declared is None else {"size": declared}}
                    if keyed:
                        req["key"] = "wiped"
                    rep = srv.call(req)
                    if not check(rep, "open", case) or "ok" not in rep:
                        continue
                    h = rep["ok"]["h"]

                    def vanish():
                        if wipe == "clear":
                            check(srv.call({"op": "clear" + ("_sync" if s else ""), "cache": c2}), "clear-with-open-handle", case)
                        elif wipe == "clear-other-side":
                            check(srv.call({"op": "clear" + ("" if s and flavour != "sync" else "_sync"), "cache": c2}), "clear-with-open-handle", case)
                        elif wipe == "rm-tmp":
                            fsutil.wipe(os.path.join(c2, "tmp"))
                        elif wipe == "rm-cache":
                            fsutil.wipe(c2)
                        else:
                            fsutil.wipe(os.path.join(c2, "tmp"))
                            with open(os.path.join(c2, "tmp"), "wb") as fh_:
                                fh_.write(b"x")
                    alive = True
                    if when == "before-write":
                        vanish()
                    r = srv.call({"op": "w_write_all", "h": h, "data": {"gen": [7, 4]}})
                    alive = check(r, "write-with-cache-gone", case) or ("hang" not in r and "died" not in r)
                    if when == "after-write":
                        vanish()
                    if alive and "hang" not in r and "died" not in r:
                        check(srv.call({"op": "w_commit", "h": h}), "commit-with-cache-gone", case)
                    fsutil.wipe(c2)
    # readers: reads after EOF, zero-length buffers, zero-length entries
    for n in (0, 1, 5):
        wr.do_write(srv, cache, side=side, entry="oneshot", key="r%d" % n, n=n, tag=2)
        for bufs in ([0], [0, 1, 0], [n + 1, 1, 1], [1] * (n + 3)):
            rep = srv.call({"op": ("sr_" if s else "ar_") + "open", "cache": cache, "key": "r%d" % n})
            if not check(rep, "reader-open", n) or "ok" not in rep:
                continue
            h = rep["ok"]["h"]
            for b in bufs:
                check(srv.call({"op": "r_read", "h": h, "n": b}), "read-buf", {"n": n, "bufs": bufs})
            check(srv.call({"op": "r_check", "h": h}), "check", {"n": n, "bufs": bufs})
    fsutil.wipe(cache)
    res["samples"].append({"kind": "shapes", "flavour": flavour, "side": side})
    return res


def rerun_worker(ctx, job):
    """Run another driver's worker and keep only totality violations."""
    mod = importlib.import_module("checks." + job["module"])
    w = getattr(mod, job.get("fn", "worker"))
    r = w(ctx, job["job"])
    keep = []
    for v in r.get("violations", []):
        if any(a in v["sig"] for a in ABNORMAL):
            v = dict(v)
            v["sig"] = "total:rerun-%s:%s" % (job["module"], v["sig"])
            keep.append(v)
    r["violations"] = keep
    r["samples"] = [{"rerun_of": job["module"], "job": {k: (v if not isinstance(v, (list, dict)) else "...") for k, v in job["job"].items()}}]
    r["extra"] = {}
    r.pop("probe", None)
    return r


def worker(ctx, job):
    if job["kind"] in ("struct", "records"):
        return state_worker(ctx, job)
    if job["kind"] == "shapes":
        return shapes_worker(ctx, job)
    return rerun_worker(ctx, job)


def _short(rep):
    s = repr(rep)
    return s if len(s) < 400 else s[:400] + "..."


def main(tier, seed=0):
    quick = tier == "quick"
    jobs = []
    recs = sorted(degenerate_records())
    for flavour in ("sync", "astd", "tok"):
        for i in range(0, len(STRUCT_PLACES), 2):
            jobs.append({"kind": "struct", "flavour": flavour, "places": STRUCT_PLACES[i:i + 2]})
        for i in range(0, len(recs), 4):
            jobs.append({"kind": "records", "flavour": flavour, "records": recs[i:i + 4]})
        for side in (["s"] if flavour == "sync" else ["a"] + ([] if quick else ["s"])):
            jobs.append({"kind": "shapes", "flavour": flavour, "side": side})
    # totality re-run of the other drivers' enumerations (their quick-sized job lists in quick, full in thorough)
    for modname in ("c02", "c08", "c11", "c01", "c18", "c19", "c06"):
        mod = importlib.import_module("checks." + modname)
        mj = mod.make_jobs(tier) if hasattr(mod, "make_jobs") else [{"hist": h, "writer": "s"} for h in (["SL", "LTS"] if quick else ["SL", "LTS", "SFT", "FSL"])]
        if quick:
            mj = mj[:: max(1, len(mj) // 12)]
        for j in mj:
            jobs.append({"kind": "rerun", "module": modname, "job": j})
    return run.run_check(PROP, tier, jobs, worker, level="exploration",
                         rule="case = one public call executed under catch_unwind and a watchdog: (a) battery of 21 operations x 3 flavours on every structural state "
                              "(8 places x 6 kinds) and every degenerate checksum-valid record (18 payloads x appended/only), (b) writer/reader input shapes (declared size x chunkings incl. "
                              "empty, more, fewer; closed writers; reads after EOF), (c) re-run of the enumerations of C01, C02, C06, C08, C11, C18, C19 with the totality oracle only; "
                              "distinct = distinct (flavour, state, operation) / shape tuples / re-run cases",
                         technique="bounded-exhaustive enumeration of inputs and on-disk states with a totality oracle (panic catcher, process liveness, watchdog confirmed on a second run)",
                         assumptions=["integrity ARGUMENTS are always well-formed (the property's own assumption); integrity strings inside on-disk records are not",
                                      "FIFOs and device nodes in place of cache files are outside the alphabet (opening one blocks in the kernel for any reader)"],
                         seed=seed, timeout=10.0, budget_s=280 if quick else 3000)
