"""C18 — extraction to a path delivers exact bytes; failed checks leave nothing behind.

Fault enumeration: size x extraction entry point (copy / hard link / reflink, checked and unchecked, by key and by
address, sync / async-std / tokio) x destination state (absent, existing with other bytes / of the same length / longer, inside a missing
directory) x content state (pristine, one representative of every damage class of C01, missing) x key state.
"""
import os

from vlib import damage, fsutil, ref, retr, wr
from vlib.run import V, classify, run_check

PROP = "C18"


def make_jobs(tier):
    sizes = [0, 1, 5, 1025, 8193, ref.MIB + 1] if tier != "quick" else [0, 5, 1025, 8193, ref.MIB + 1]
    if tier != "quick":
        sizes.append(3 * ref.MIB + 17)
    return [{"flavour": f, "n": n, "algo": a} for f in ("sync", "astd", "tok") for n in sizes for a in (("sha256", "xxh3") if tier != "quick" else ("sha256",))]


def representative_damages(data, other, aux):
    seen = {}
    for d in damage.damages(data, other, exhaustive_limit=0, aux_dir=aux):
        name, klass = d[0], d[1]
        seen.setdefault(klass, [])
        if len(seen[klass]) < (3 if klass in ("bitflip", "truncate") else 2):
            seen[klass].append(d)
    out = []
    for k in seen:
        out += seen[k]
    out.append(("missing", "missing", "missing", None))
    return out


def worker(ctx, job):
    res = V.new()
    flavour, n, algo = job["flavour"], job["n"], job["algo"]
    srv = ctx.srv(flavour)
    cache = ctx.fresh("c18-")
    aux = ctx.fresh("c18aux-")
    os.makedirs(aux)
    data = ref.gen(n, 51)
    other = ref.gen(n, 52) if n else None
    key = "the-key"
    rep, _ = wr.do_write(srv, cache, side="s", entry="oneshot_algo", key=key, algo=algo, n=n, tag=51)
    sri = ctx.sri(algo, data)
    if rep.get("ok") != sri:
        raise RuntimeError("setup write failed: %r" % rep)
    cpath = os.path.join(cache, ref.content_rel(sri))
    prev0 = b"previous destination bytes"
    prev = prev0
    entries = [(e, True) for e in retr.checked(flavour) if e[2] in ("copy", "link", "reflink")] + [(e, False) for e in retr.unchecked(flavour)]
    states = [("pristine", "pristine", "bytes", data)] + representative_damages(data, other, aux)
    for dname, klass, kind, payload in states:
        damage.apply(cpath, kind, payload, aux)
        res["states"] += 1
        damaged_bytes = damage.read_dest(cpath)
        for (name, by, rk), is_checked in entries:
            for dstate in ("absent", "existing", "existing-same-length", "existing-longer", "missing-dir", "linked-to-content"):
                for keystate in (("present", "absent") if by == "key" else ("present",)):
                    if keystate == "absent" and (dstate != "absent" or klass not in ("pristine", "bitflip")):
                        continue
                    dest = os.path.join(aux, "dest") if dstate != "missing-dir" else os.path.join(aux, "no-such-dir", "dest")
                    fsutil.wipe(os.path.join(aux, "dest"))
                    fsutil.wipe(os.path.join(aux, "no-such-dir"))
                    prev = prev0
                    if dstate == "existing-same-length":
                        # written after the entry (newer mtime), same length, other bytes
                        prev = bytes(b_ ^ 0x55 for b_ in data) if n else b""
                    elif dstate == "existing-longer":
                        prev = data + b"-stale tail of a longer file"
                    if dstate in ("existing", "existing-same-length", "existing-longer"):
                        if dstate != "existing" and (n == 0 or n > ref.MIB):
                            continue
                        with open(dest, "wb") as fh:
                            fh.write(prev)
                    if dstate == "linked-to-content":
                        # an earlier extraction left a hard link to the content file here; the damage (if any) was
                        # done in place, so the destination shares the damaged inode
                        if rk != "link" or not os.path.isfile(cpath) or os.path.islink(cpath):
                            continue
                        os.link(cpath, dest)
                    k = key if keystate == "present" else "no-such-key"
                    rep = srv.call({"op": name, "cache": cache, "key": k, "sri": sri, "to": dest})
                    res["evals"] += 1
                    res["transitions"] += 1
                    res["distinct"].add(V.h(flavour, algo, n, dname, name, dstate, keystate))
                    after = damage.read_dest(dest)
                    if after is None and rk == "copy" and is_checked and "err" in rep and not name.endswith("_sync") and klass not in ("pristine", "missing", "symlink-identical"):
                        # an async copy that was started before verification finished cannot be cancelled: it may
                        # still materialise after the call returned
                        import time as _t
                        for _ in range(6):
                            _t.sleep(0.005)
                            after = damage.read_dest(dest)
                            if after is not None:
                                break
                    case = {"flavour": flavour, "algo": algo, "n": n, "content": dname, "entry": name, "dest": dstate, "key": keystate}
                    sig = "extract:%s:%s:dest=%s:key=%s" % (name, klass, dstate, keystate)
                    cls = classify(rep)
                    V.outcome(res, "%s:%s:%s" % (rk, klass if klass in ("pristine", "missing") else "damaged", "ok" if "ok" in rep else "err"))
                    if not ("ok" in rep or "err" in rep) or rep.get("panics"):
                        V.violation(res, sig + ":" + cls, "call did not return a value: %r" % rep, {"engine": "seqx", "case": case, "reply": rep})
                        continue
                    if keystate == "absent":
                        if rep.get("err", {}).get("variant") != "EntryNotFound":
                            V.violation(res, sig + ":not-EntryNotFound", "missing key gave %r" % rep, {"engine": "seqx", "case": case, "reply": rep})
                        elif after is not None:
                            V.violation(res, sig + ":dest-created", "missing key but destination exists", {"engine": "seqx", "case": case})
                        continue
                    if klass == "missing":
                        if rep.get("err", {}).get("variant") != "IoError":
                            V.violation(res, sig + ":not-IoError", "missing content gave %r" % rep, {"engine": "seqx", "case": case, "reply": rep})
                        continue
                    if "ok" in rep:
                        if is_checked or klass in ("pristine", "symlink-identical"):
                            if after != data:
                                V.violation(res, sig + ":dest-wrong-bytes", "extraction succeeded but the destination holds %s" % (
                                    "nothing" if after is None else "%d other bytes" % len(after)), {"engine": "seqx", "case": case, "reply": rep})
                                continue
                            if rk == "copy" and rep["ok"] != n:
                                V.violation(res, sig + ":wrong-count", "copy returned %r for %d bytes" % (rep["ok"], n), {"engine": "seqx", "case": case, "reply": rep})
                    else:
                        if is_checked and klass not in ("pristine", "symlink-identical") and rep["err"].get("variant") == "IntegrityError":
                            # verification failed: the unverified bytes must not be at the destination
                            # (a destination that already existed keeps what it held; only one that shares the content file's inode holds the damage)
                            allowed = (None,) if dstate not in ("existing", "existing-same-length", "existing-longer", "linked-to-content") else \
                                ((None, prev, damaged_bytes) if dstate == "linked-to-content" else (None, prev))
                            if after not in allowed and after == damaged_bytes and after != data:
                                V.violation(res, sig + ":unverified-bytes-left", "checked extraction failed verification but left the damaged bytes at the destination",
                                            {"engine": "seqx", "case": case, "reply": rep})
                                continue
                            if after not in allowed and after != data:
                                V.violation(res, sig + ":dest-modified", "checked extraction failed but the destination now holds other bytes",
                                            {"engine": "seqx", "case": case, "reply": rep})
                                continue
                        if klass == "pristine" and dstate == "absent" and rk != "reflink":
                            V.violation(res, sig + ":" + cls, "extraction of intact content to a fresh path failed: %r" % rep, {"engine": "seqx", "case": case, "reply": rep})
    fsutil.wipe(cache)
    fsutil.wipe(aux)
    res["samples"].append({"flavour": flavour, "n": n, "algo": algo, "content_states": [s[0] for s in states], "entries": len(entries)})
    return res


def main(tier, seed=0):
    return run_check(PROP, tier, make_jobs(tier), worker, level="fault_enumeration",
                     rule="case = (flavour, algorithm, size, content state [pristine | representative of each damage class | missing], extraction entry point, "
                          "destination state, key state); distinct tuples counted",
                     technique="exhaustive fault enumeration on the on-disk state x every extraction entry point x destination states",
                     assumptions=["reflink cannot succeed on tmpfs/ext4 (only its Ok outcomes are constrained)",
                                  "unchecked extraction of damaged content is not constrained (it is documented as unverified)"],
                     seed=seed, timeout=30.0)
