"""C08 — commit enforces declared integrity and size; a rejected commit maps nothing.

Bounded-exhaustive input/history enumeration (seqx): prior state of the key x writer (keyed / by address) x side x
flavour x data size (both sides of the 1 MiB mmap threshold) x chunking x declared size x declared integrity
(none, correct, wrong, correct under another algorithm, multi-hash with/without the writer's algorithm, multi-hash
with a wrong hash of the writer's algorithm) x algorithm.
"""
from vlib import fsutil, ref, tables, wr
from vlib.model import entry_of_reply
from vlib.ops import is_async
from vlib.run import V, classify, run_check

PROP = "C08"
KEY = "c08-key"
PREV = {"n": 8, "tag": 111}


def other_algos(a):
    rest = [x for x in ("sha1", "sha256", "sha512") if x != a]
    return rest[0], rest[1]


def integrity_forms(ctx, algo, data, other_data):
    b, c = other_algos(algo)
    good = ctx.sri(algo, data)
    wrong = ctx.sri(algo, other_data)
    gb = ctx.sri(b, data)
    gc = ctx.sri(c, data)
    wb = ctx.sri(b, other_data)
    return [
        ("none", None, "ok"),
        ("correct", good, "ok"),
        ("wrong", wrong, "reject"),
        ("other-algorithm-correct", gb, "either"),
        ("other-algorithm-wrong", wb, "reject"),
        ("multi-without-writer-algorithm-wrong", wb + " " + gc, "reject"),
        # every declared digest is correct and one of them is under the writer's own algorithm: the declarations match, the
        # commit has to succeed (which of the digests the entry then carries is C11's subject, not judged here)
        ("multi-containing-writer-algorithm", good + " " + gb, "ok-multi"),
        ("multi-without-writer-algorithm", gb + " " + gc, "either"),
        ("multi-with-wrong-writer-hash", wrong + " " + gb, "reject"),
    ]


def make_jobs(tier):
    quick = tier == "quick"
    jobs = []
    for flavour in ("sync", "astd", "tok"):
        sides = ["s"] if not is_async(flavour) else (["a"] if quick else ["s", "a"])
        for side in sides:
            for entry in ("open", "open_hash"):
                for algo in (("sha256", "xxh3", "sha512") if quick else ref.ALGOS):
                    jobs.append({"flavour": flavour, "side": side, "entry": entry, "algo": algo})
    for flavour, side in (("sync", "s"), ("astd", "a"), ("tok", "a")):
        jobs.append({"kind": "short", "flavour": flavour, "side": side})
    return jobs


def short_worker(ctx, job):
    """The byte count that commit compares with the declared size must be the number of bytes accepted, also when the
    file system answers a write short (legal) and the caller sends the rest again: declared size = real count must
    commit, the inflated count must be rejected. Plain (not memory-mapped) writers: declared size > 1 MiB."""
    import json as _json
    import os as _os
    from vlib import fsx
    res = V.new()
    flavour, side = job["flavour"], job["side"]
    suf = "_sync" if side == "s" else ""
    cache = ctx.path("c08s-cache")
    n, tag = ref.MIB + 3, 114
    data = ref.gen(n, tag)
    want = ctx.sri("sha256", data)
    pf = ctx.path("prog-c08s.json")

    def prog(declared):
        h = {"ref": 0}
        return [{"op": ("sw_" if side == "s" else "aw_") + "open", "cache": cache, "key": KEY, "opts": {"size": declared}},
                {"op": "w_write_all", "h": h, "data": {"gen": [n, tag]}}, {"op": "w_commit", "h": h},
                {"op": "metadata" + suf, "cache": cache, "key": KEY}]

    def run_one(declared, faults):
        fsutil.wipe(cache)
        with open(pf, "w") as fh:
            _json.dump(prog(declared), fh)
        return fsx.run({"roots": [cache], "actors": [fsx.actor(flavour, "S", pf)], "timeout_ms": 30000, "faults": faults}, ctx.dir)

    _raw_run_one = run_one
    run_one = lambda declared, faults: fsx.confirmed(lambda: _raw_run_one(declared, faults))
    probe = run_one(n, [])
    steps = [s for s in probe["steps"] if s.get("step") is not None]
    wsteps = [(i, s["len"]) for i, s in enumerate(steps) if s["sys"] in ("write", "pwrite64") and "/tmp/.tmp" in (s.get("fd_path") or "") and s["len"] > 1]
    wsteps = wsteps[:3] + wsteps[-2:] if len(wsteps) > 5 else wsteps
    for (i, L) in wsteps:
        for t in fsx.short_lengths(L):
            for declared, expect in ((n, "Ok"), (n + (L - t), "SizeMismatch")):
                rep = run_one(declared, [{"step": i, "short": t}])
                res["evals"] += 1
                res["distinct"].add(V.h("c08short", flavour, side, i, t, declared))
                out = fsx.replies(rep, 0)
                replay = {"engine": "fsx", "mode": "short", "flavour": flavour, "side": side, "n": n, "declared": declared, "faults": [{"step": i, "short": t}]}
                sig = "commit-short:open/%s:n>1MiB:%s" % (side, "size=correct" if declared == n else "size=inflated-count")
                commit = out[2] if len(out) > 2 else (out[-1] if out else {"missing": True})
                got = "Ok" if "ok" in commit else commit.get("err", {}).get("variant", classify(commit))
                V.outcome(res, "short|%s|%s" % ("correct" if declared == n else "inflated", got))
                if rep["status"] != "ok" or got != expect:
                    V.violation(res, "%s:got-%s" % (sig, got), "write of %d bytes answered short at step %d (%d of %d), declared size %d: commit replied %s, expected %s" % (n, i, t, L, declared, got, expect), replay)
                    continue
                if expect == "Ok":
                    m = out[3].get("ok") if len(out) > 3 else None
                    if commit["ok"] != want or not m or m["size"] != n or m["integrity"] != want:
                        V.violation(res, sig + ":wrong-entry", "accepted commit maps %r (expected %s, size %d)" % (m, want, n), replay)
    fsutil.wipe(cache)
    res["samples"].append({"kind": "short-answer", "flavour": flavour, "side": side, "write_steps": len(wsteps)})
    return res


def worker(ctx, job):
    if job.get("kind") == "short":
        return short_worker(ctx, job)
    res = V.new()
    flavour, side, entry, algo = job["flavour"], job["side"], job["entry"], job["algo"]
    quick = ctx.tier == "quick"
    srv = ctx.srv(flavour)
    cache = ctx.fresh("c08-")
    sizes = [0, 1, 5, ref.MIB, ref.MIB + 1] if quick else [0, 1, 5, ref.MIB - 1, ref.MIB, ref.MIB + 1]
    lookups = ["metadata_sync"] + (["metadata"] if is_async(flavour) else [])
    count = 0
    for n in sizes:
        big = n >= ref.MIB - 1
        data = ref.gen(n, 112)
        odata = ref.gen(max(n, 1), 113)
        # "same-data": the key (or, by address, the cache) already holds exactly the bytes the writer is going to deliver
        priors = ["absent"] if big else (["absent", "same-data"] if entry == "open_hash" else ["absent", "present", "removed", "same-data"])
        chunkss = [[n]] if big else ([[n], [1, n - 1], [n - 1, 1]] if n > 1 else [[n], [0, n]])
        dsizes = [None, n, n + 1, 2 * n + 3] + ([n - 1, 0] if n > 0 else [])
        if big and quick:
            dsizes = [None, n, n - 1, n + 1]
        forms = integrity_forms(ctx, algo, data, odata)
        for prior in priors:
            for chunks in chunkss:
                for dsize in dsizes:
                    for fname, fsri, fexp, wop in [(a_, b_, c_, w_) for (a_, b_, c_) in forms for w_ in ("w_write_all", "w_write_all_vectored")]:
                        if big and (fname.startswith("multi") or wop != "w_write_all"):
                            continue
                        # prior state
                        fsutil.wipe(cache)
                        before = None
                        if prior in ("present", "removed"):
                            rep, _ = wr.do_write(srv, cache, side="s", entry="open", key=KEY, algo="sha256", n=PREV["n"], tag=PREV["tag"], opts={"time": "5", "metadata": "prev"})
                            assert "ok" in rep, rep
                        if prior == "removed":
                            srv.call({"op": "remove_sync", "cache": cache, "key": KEY})
                        if prior == "same-data":
                            if fname != forms[0][0] and dsize not in (None, n):
                                pass
                            rep0, _ = wr.do_write(srv, cache, side="s", entry="oneshot_algo" if entry == "open" else "hash_algo", key=KEY if entry == "open" else None, algo=algo, n=n, tag=112)
                            assert "ok" in rep0, rep0
                        if entry == "open":
                            before = {l: srv.call({"op": l, "cache": cache, "key": KEY}) for l in lookups}
                        opts = {}
                        if dsize is not None:
                            opts["size"] = dsize
                        if fsri is not None:
                            opts["integrity"] = fsri
                        rep, trace = wr.do_write(srv, cache, side=side, entry=entry, key=KEY if entry == "open" else None, algo=algo, n=n, tag=112, chunks=chunks, opts=opts, write_op=wop)
                        res["evals"] += 1
                        res["transitions"] += len(trace)
                        count += 1
                        size_bad = dsize is not None and dsize != n
                        case = {"flavour": flavour, "side": side, "entry": entry, "algo": algo, "n": n, "chunks": chunks, "declared_size": dsize, "declared_integrity": fname, "prior": prior, "supplied_through": wop}
                        replay = {"engine": "seqx", "case": case, "reply": rep}
                        res["distinct"].add(V.h(flavour, side, entry, algo, n, tuple(chunks), dsize, fname, prior, wop))
                        szc = "size=none" if dsize is None else "size=correct" if not size_bad else ("size<n" if dsize < n else "size>n")
                        sig = "commit:%s/%s:%s:%s:integrity=%s%s" % (entry, side, "n<=1MiB" if n <= ref.MIB else "n>1MiB", szc, fname, "" if wop == "w_write_all" else ":vectored")
                        cls = classify(rep)
                        V.outcome(res, "%s|%s|%s" % (szc, fname, cls))
                        if not ("ok" in rep or "err" in rep) or rep.get("panics"):
                            V.violation(res, sig + ":" + cls, "commit did not return a value: %r" % rep, replay)
                            continue
                        variant = rep.get("err", {}).get("variant")
                        allowed = set()
                        if size_bad:
                            allowed.add("SizeMismatch")
                            if fexp in ("reject", "either"):
                                allowed.add("IntegrityError")
                        else:
                            if fexp in ("ok", "ok-multi"):
                                allowed.add("Ok")
                            elif fexp == "reject":
                                allowed.add("IntegrityError")
                            else:
                                allowed |= {"Ok", "IntegrityError"}
                        got = "Ok" if "ok" in rep else variant
                        if got not in allowed:
                            V.violation(res, "%s:got-%s" % (sig, got), "commit replied %s, allowed: %s" % (cls, sorted(allowed)), replay)
                            continue
                        # whatever the verdict, the content area must hold only files that match their address
                        snap_ = fsutil.snapshot(cache) or {}
                        for rel_, e_ in snap_.items():
                            if rel_.startswith(ref.CONTENT_DIR + "/") and e_[0] == "f" and ref.content_path_ok(rel_, e_[1], ctx.xxh3) is False:
                                V.violation(res, sig + ":content-file-not-matching-address", "after the commit (%s) content file %s (%d bytes) does not hash to its address" % (cls, rel_, len(e_[1])), replay)
                                break
                        if "err" in rep:
                            if entry == "open":
                                after = {l: srv.call({"op": l, "cache": cache, "key": KEY}) for l in lookups}
                                if after != before:
                                    V.violation(res, sig + ":rejected-but-mapping-changed", "rejected commit changed the key's mapping: before %r after %r" % (before, after), replay)
                            if prior == "same-data":
                                # the mapping that existed must still RESOLVE: the bytes are shared by address
                                r = srv.call({"op": "read_sync", "cache": cache, "key": KEY}) if entry == "open" else srv.call({"op": "read_hash_sync", "cache": cache, "sri": ctx.sri(algo, data)})
                                if not ("ok" in r and wr.data_matches(r["ok"], data)):
                                    V.violation(res, sig + ":rejected-but-stored-data-lost", "after a rejected commit of the same bytes the earlier mapping reads %r" % (r,), replay)
                        elif fexp == "ok":
                            want = ctx.sri(algo, data)
                            if rep["ok"] != want:
                                V.violation(res, sig + ":wrong-digest", "commit returned %s, expected %s" % (rep["ok"], want), replay)
                                continue
                            if entry == "open":
                                for l in lookups:
                                    m = srv.call({"op": l, "cache": cache, "key": KEY})
                                    e = entry_of_reply(m.get("ok")) if "ok" in m else None
                                    if e is None or e["integrity"] != want or e["size"] != n:
                                        V.violation(res, sig + ":accepted-but-not-mapped", "accepted commit but %s gives %r" % (l, m), replay)
                                        break
                                r = srv.call({"op": "read_sync", "cache": cache, "key": KEY})
                                if not ("ok" in r and wr.data_matches(r["ok"], data)):
                                    V.violation(res, sig + ":accepted-but-unreadable", "accepted commit but read gives %r" % (r,), replay)
    fsutil.wipe(cache)
    res["samples"].append({"flavour": flavour, "side": side, "entry": entry, "algo": algo, "cases": count, "sizes": sizes})
    return res


def main(tier, seed=0):
    return run_check(PROP, tier, make_jobs(tier), worker, level="exploration",
                     rule="case = (flavour, side, keyed/by-address writer, algorithm, data size, chunking, declared size [none, n, n-1, n+1, 0, 2n+3], declared integrity "
                          "[9 forms], prior state of the key [absent/present/removed]); distinct tuples counted; every case commits through the real API and compares "
                          "the key's mapping before/after through sync and async lookups",
                     technique="bounded-exhaustive input and history enumeration against the real API with a table oracle",
                     assumptions=["a correct digest under another algorithm than the writer's (alone or inside a multi-hash) may be accepted or rejected: the property text and the API "
                                  "documentation pull in different directions, only 'rejected => nothing mapped' is demanded there"],
                     seed=seed, timeout=30.0)
