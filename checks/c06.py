"""C06 — damage to an index file is contained to the damaged records.

Fault enumeration on bucket files: bucket histories (all histories up to length 3 over insert-short,
insert-long-non-ASCII, insert-foreign, tombstone, plus histories with a record longer than 1 KiB; written by the library itself) x every damage (each record
cut at every byte length with and without later records, every single-bit flip, deletion of each separating
newline, garbage lines inserted between any two records, duplicated / transposed records and fragments) x
0-2 further appends. Oracle layer 1: every lookup entry point of every flavour = reference decoder on the
damaged bytes; layer 2 (containment): the reference result itself equals what the untouched records imply, and
every returned entry is a record that some insert wrote verbatim.
"""
import itertools
import os
import time

from vlib import fsutil, ref, tables
from vlib.model import entry_matches, entry_of_reply
from vlib.run import V, classify, run_check

PROP = "C06"
KEY = "bucket-key"
FOREIGN = "foreign-key"
SHORT = {"integrity": "sha1-2jmj7l5rSw0yVb/vlWAYkK/YBwk=", "time": 11, "size": 1}
LONG = {"integrity": "sha512-z4PhNX7vuL3xVChQ1m2AB9Yg5AULVxXcg/SpIdNs6c5H0NE8XYXysP+DGNKHfuwvY7kxvUdBeoGlODJ6+SfaPg==", "time": 2 ** 64 + 7, "size": 123456,
        "metadata": {"имя": "значение-é-\U0001F600", "l": [1, 2.5, None, "tab\t"]}, "raw_metadata": "00ff7f"}
FOR = {"integrity": "sha256-47DEQpj8HBSa+/TImW+5JCeuQeRkm5NMpJWZG3hSuFU=", "time": 33, "size": 0, "metadata": "foreign"}
BIG = {"integrity": "sha256-n4bQgYhMfWWaL+qgxVrQFaO/TxsrC4Is0V1sFbDwCgg=", "time": 55, "size": 7, "metadata": {"blob": "ab" * 800, "tail": [1, 2, 3]}}
APPEND = {"integrity": "sha256-LCa0a2j/xo/5m0U8HTBBNBNCLXBkg7+g+YpeiGJm564=", "time": 44, "size": 3, "metadata": ["appended"]}

GARBAGE = [b"", b"\x00" * 16, b"\xff\xfe\xfd garbage", b"half code point \xe2\x82", b"x" * 4096, b"two\ttabs\there",
           None,  # valid checksum + non-object JSON, filled in below
           None,  # \r-terminated copy of a valid record line
           b"deadbeef\t{}", b"\t", b"\xf0\x9f\x98",
           None,  # checksum-valid record for KEY whose integrity cannot name a content file (filled in below)
           None]  # the same for the foreign key


def histories(maxlen):
    acts = ["S", "L", "F", "T"]
    out = []
    for n in range(1, maxlen + 1):
        out += ["".join(h) for h in itertools.product(acts, repeat=n)]
    return out


def opts_of(v):
    o = {"integrity": v["integrity"], "time": str(v["time"]), "size": v["size"]}
    if "metadata" in v:
        o["metadata"] = v["metadata"]
    if "raw_metadata" in v:
        o["raw_metadata"] = v["raw_metadata"]
    return o


def entry_of(key, v):
    raw = v.get("raw_metadata")
    return {"key": key, "integrity": v["integrity"], "time": v["time"], "size": v["size"], "metadata": v.get("metadata"),
            "raw_metadata": None if raw is None else bytes.fromhex(raw)}


def build_bucket(srv, cache, hist, side="s"):
    """Write the history with the library; returns the bucket bytes."""
    fsutil.wipe(cache)
    ins = "index_insert" if side == "s" else "index_insert_async"
    dele = "index_delete" if side == "s" else "index_delete_async"
    bpath = os.path.join(cache, ref.bucket_rel(KEY))
    for a in hist:
        if a == "S":
            rep = srv.call({"op": ins, "cache": cache, "key": KEY, "opts": opts_of(SHORT)})
        elif a == "L":
            rep = srv.call({"op": ins, "cache": cache, "key": KEY, "opts": opts_of(LONG)})
        elif a == "B":
            # a record longer than 1 KiB (large metadata): damage far from its beginning must be detected as well
            rep = srv.call({"op": ins, "cache": cache, "key": KEY, "opts": opts_of(BIG)})
        elif a == "T":
            rep = srv.call({"op": dele, "cache": cache, "key": KEY})
        elif a == "F":
            # a valid record for another key inside this bucket (what a SHA-1 collision would leave)
            e = entry_of(FOREIGN, FOR)
            os.makedirs(os.path.dirname(bpath), exist_ok=True)
            with open(bpath, "ab") as fh:
                fh.write(ref.encode_record(e))
            rep = {"ok": None}
        if "ok" not in rep:
            raise RuntimeError("bucket construction failed: %r" % rep)
    with open(bpath, "rb") as fh:
        return fh.read()


def damages(data, quick):
    """Yields (name, class, damaged_bytes, (a, b) damaged region in the original or None)."""
    lines = ref.split_bucket(data)  # [(start, end, rec)]; line 0 is the empty prefix before the first \n
    recs = [(s, e, r) for (s, e, r) in lines if e > s]
    n = len(data)

    def keep(o):
        # buckets with a > 1 KiB record: every offset near both ends of the file and of every record, every 23rd in between
        return n <= 1200 or o % 23 == 0 or any(abs(o - x) < 90 for (s_, e_, r_) in recs for x in (s_, e_))

    # cuts: every byte length of every record (cut = truncate the file there), and the same with the later records kept
    step = 1
    for (s, e, r) in recs:
        for cut in range(s, e, step):
            if not keep(cut):
                continue
            yield ("cut@%d" % cut, "cut-tail", data[:cut], (cut, n))
            if e < n:
                yield ("cut@%d+rest" % cut, "cut-middle", data[:cut] + data[e:], (cut, e))
    # every single-bit flip
    for o in range(n):
        if not keep(o):
            continue
        for b in (range(8) if (not quick or o % 3 == 0) and n <= 1200 else (0, 1, 6)):
            d = bytearray(data)
            d[o] ^= 1 << b
            yield ("flip@%d.%d" % (o, b), "bitflip", bytes(d), (o, o + 1))
    # deletion of each separating newline
    for (s, e, r) in lines:
        if s > 0 and data[s - 1:s] == b"\n":
            yield ("del-newline@%d" % (s - 1), "separator-deleted", data[:s - 1] + data[s:], (s - 1, s))
    # garbage lines between any two records (and at both ends)
    garb = list(GARBAGE)
    garb[6] = None
    nonobj = "[1,2,3]"
    garb[6] = (ref.sha256hex(nonobj.encode()) + "\t" + nonobj).encode()
    garb[11] = ref.encode_record({"key": KEY, "integrity": "sha256-AA==", "time": 5, "size": 1, "metadata": None, "raw_metadata": None})[1:]
    garb[12] = ref.encode_record({"key": FOREIGN, "integrity": "", "time": 5, "size": 1, "metadata": None, "raw_metadata": None})[1:]
    if recs:
        s, e, r = recs[0]
        garb[7] = data[s:e] + b"\r"
    else:
        garb[7] = b"\r"
    bounds = sorted({0, n} | {s - 1 for (s, e, r) in recs if s > 0})
    for pos in bounds:
        for gi, g in enumerate(garb):
            yield ("garbage%d@%d" % (gi, pos), "garbage-line", data[:pos] + b"\n" + g + data[pos:], None)
    # duplication / transposition of whole records and of fragments
    chunks = [data[s - 1:e] for (s, e, r) in recs if s > 0]
    if len(chunks) >= 2:
        for i in range(len(chunks) - 1):
            sw = list(chunks)
            sw[i], sw[i + 1] = sw[i + 1], sw[i]
            yield ("transpose%d" % i, "reordered", b"".join(sw), None)
    for i, c in enumerate(chunks):
        yield ("dup%d" % i, "duplicated", data + c, None)
        yield ("dup-fragment%d" % i, "duplicated-fragment", data + c[:len(c) // 2], None)
        yield ("frag-then-dup%d" % i, "duplicated-fragment", c[:len(c) // 2] + data, None)


def untouched_records(data, region):
    """Records whose bytes, leading newline and terminator position the damage did not touch (layer 2)."""
    a, b = region
    keep = []
    for (s, e, r) in ref.split_bucket(data):
        if r is None:
            continue
        # the record occupies [s-1, e] including its leading newline and its terminator position e
        if b <= s - 1 or a > e:
            keep.append(r)
    return keep


def is_subsequence(small, big):
    it = iter(big)
    return all(any(_same(x, y) for y in it) for x in small)


def lookups():
    return [("sync", "metadata_sync"), ("sync", "index_find"), ("sync", "read_sync"), ("astd", "metadata"), ("astd", "index_find_async"), ("tok", "metadata"),
            ("astd", "read"), ("tok", "index_find_async")]


def worker(ctx, job):
    res = V.new()
    hist = job["hist"]
    quick = ctx.tier == "quick"
    cache = ctx.fresh("c06-")
    srvs = {f: ctx.srv(f) for f in ("sync", "astd", "tok")}
    data = build_bucket(srvs["sync" if job["writer"] == "s" else "astd"], cache, hist, job["writer"])
    bpath = os.path.join(cache, ref.bucket_rel(KEY))
    written = [entry_of(KEY, SHORT), entry_of(KEY, LONG), entry_of(FOREIGN, FOR), entry_of(KEY, APPEND), entry_of(KEY, BIG)]
    appends_list = [0, 1] if quick else [0, 1, 2]
    last_ins = {"S": SHORT, "L": LONG, "B": BIG}.get(hist[-1])
    last_start = max([s_ for (s_, e_, r_) in ref.split_bucket(data) if e_ > s_] or [0])
    for name, klass, damaged, region in damages(data, quick):
        res["states"] += 1
        modes = list(appends_list)
        # "same": the record the bucket ends with is inserted once more, byte for byte (an identical re-put): it must become
        # effective whatever the damage did to the copy that is already there. All states of the small classes; cuts and
        # flips where they touch the separator in front of that last record.
        if last_ins is not None and (klass not in ("cut-tail", "cut-middle", "bitflip") or (region is not None and region[0] <= last_start and region[1] >= last_start - 1)):
            modes += ["same-sync", "same-async"]
        for nappend in modes:
            same = nappend in ("same-sync", "same-async") and nappend
            if same:
                nappend = 1
            if nappend and not same and klass in ("bitflip",) and res["states"] % 4:
                continue  # appends after flips: a quarter of the flip states (the flipped record is dead either way)
            with open(bpath, "wb") as fh:
                fh.write(damaged)
            cur = damaged
            for i in range(nappend):
                op, srv = (("index_insert", srvs["sync"]) if (same == "same-sync" or (not same and (i + res["states"]) % 2 == 0)) else ("index_insert_async", srvs["astd"]))
                rep = srv.call({"op": op, "cache": cache, "key": KEY, "opts": opts_of(last_ins if same else APPEND)})
                if "ok" not in rep:
                    V.violation(res, "index-damage:%s:append-%s" % (klass, classify(rep)), "append after damage %s failed: %r" % (name, rep),
                                {"engine": "seqx", "history": hist, "damage": name, "appends": nappend})
                with open(bpath, "rb") as fh:
                    cur = fh.read()
            cands = []
            for mode in ("crlf", "always", "never"):
                rs = ref.decode_bucket(cur, cr=mode)
                c = (ref.effective(rs, KEY), ref.effective(rs, FOREIGN), rs)
                if not any(_same(c[0], x[0]) and _same(c[1], x[1]) for x in cands):
                    cands.append(c)
            replay = {"engine": "seqx", "history": hist, "writer": job["writer"], "damage": name, "appends": ("re-insert of the last record (%s)" % same) if same else nappend, "bucket_hex": cur.hex() if len(cur) < 3000 else None}
            res["evals"] += 1
            res["distinct"].add(V.h(hist, name, nappend, same))
            # layer 2: containment, judged on the reference decoding itself
            recs = cands[0][2]
            if region is not None and nappend == 0:
                keep = untouched_records(data, region)
                if not is_subsequence(keep, recs):
                    V.violation(res, "index-damage:%s:reference-not-contained" % klass,
                                "damage %s: an untouched record is missing from the decoding of the damaged bytes" % name, replay)
            for r_ in recs:
                if r_["integrity"] is not None and not any(_same(r_, w) for w in written):
                    V.violation(res, "index-damage:%s:reference-entry-not-written" % klass, "decoded record %r was never written" % (_k(r_),), replay)
            # which candidate does the library follow? (decided by the first lookup, then demanded of all)
            first = srvs["sync"].call({"op": "metadata_sync", "cache": cache, "key": KEY})
            chosen = None
            if "ok" in first:
                g0 = entry_of_reply(first["ok"])
                for c in cands:
                    if _same(g0, c[0]):
                        chosen = c
                        break
            if chosen is None:
                chosen = cands[0]
            exp, exp_for = chosen[0], chosen[1]
            if len(cands) > 1:
                V.outcome(res, "cr-ambiguous-line")
            # layer 1: the library equals the reference on every entry point
            if nappend and exp is None or (nappend and not _same(exp, entry_of(KEY, last_ins if same else APPEND))):
                V.violation(res, "index-damage:%s:append-not-effective" % klass, "record appended after damage %s is not the effective one" % name, replay)
            for fl, op in lookups():
                if quick and fl == "tok" and op != "metadata":
                    continue
                rep = srvs[fl].call({"op": op, "cache": cache, "key": KEY})
                res["transitions"] += 1
                if op in ("read_sync", "read"):
                    okv = (rep.get("err", {}).get("variant") == "EntryNotFound") if exp is None else (rep.get("err", {}).get("variant") in ("IoError",))
                    if not okv:
                        V.violation(res, "index-damage:%s:%s:%s" % (klass, op, classify(rep)), "%s after damage %s gave %r, reference says entry %s" % (op, name, rep, "absent" if exp is None else "present"), replay)
                    continue
                if "ok" not in rep:
                    V.violation(res, "index-damage:%s:%s:%s" % (klass, op, classify(rep)), "%s on a damaged bucket (%s) failed: %r" % (op, name, rep), replay)
                    continue
                got = entry_of_reply(rep["ok"])
                if not _same_reply(got, exp):
                    V.violation(res, "index-damage:%s:%s:differs-from-reference" % (klass, op),
                                "%s after damage %s returned %r, the reference decoder says %r" % (op, name, _k(got), _k(exp)), replay)
                elif got is not None and not any(_same_reply(got, w) for w in written):
                    V.violation(res, "index-damage:%s:%s:entry-never-written" % (klass, op), "%s returned an entry no insert wrote: %r" % (op, got), replay)
            # listing
            rep = srvs["sync"].call({"op": "list_sync", "cache": cache})
            res["transitions"] += 1
            if "ok" not in rep or any("err" in i for i in rep["ok"]):
                V.violation(res, "index-damage:%s:list_sync:%s" % (klass, classify(rep) if "ok" not in rep else "error-item"), "list_sync on damaged bucket %s: %r" % (name, rep), replay)
            else:
                got = {i["ok"]["key"]: entry_of_reply(i["ok"]) for i in rep["ok"]}
                want = {}
                if exp is not None:
                    want[KEY] = exp
                if exp_for is not None:
                    want[FOREIGN] = exp_for
                if len(got) != len(rep["ok"]) or set(got) != set(want) or not all(_same_reply(got[k], want[k]) for k in got):
                    V.violation(res, "index-damage:%s:list_sync:differs-from-reference" % klass, "list_sync after damage %s lists %r, reference says %r" % (name, sorted(got), sorted(want)), replay)
            V.outcome(res, "%s:%s" % (klass, "entry" if exp is not None else "none"))
    fsutil.wipe(cache)
    res["samples"].append({"history": hist, "writer": job["writer"], "bucket_len": len(data), "damage_states": res["states"]})
    return res


def _k(e):
    if e is None:
        return None
    return (e["key"], e["integrity"][:12], e["time"], e["size"])


def _same(a, b):
    if a is None or b is None:
        return a is None and b is None
    return a["key"] == b["key"] and a["integrity"] == b["integrity"] and a["time"] == b["time"] and a["size"] == b["size"] and \
        ref.json_equal(a["metadata"], b["metadata"]) and a["raw_metadata"] == b["raw_metadata"]


def _same_reply(got, exp):
    return _same(got, exp)


def main(tier, seed=0):
    quick = tier == "quick"
    hs = histories(3)
    if quick:
        hs = ["S", "L", "SL", "LS", "ST", "TL", "SF", "FL", "SLS", "LTS", "SFT", "FSL", "SB", "BS"]
    else:
        hs += ["B", "SB", "BS", "BT", "SBL", "BFB"]
    jobs = [{"hist": h, "writer": "s" if i % 2 == 0 else "a"} for i, h in enumerate(hs)]
    return run_check(PROP, tier, jobs, worker, level="fault_enumeration",
                     rule="case = (bucket history written by the library, damage, number of further appends); damage = each record cut at every byte length (tail cut / middle cut), "
                          "every single-bit flip of the file (buckets holding a > 1 KiB record: every offset within 90 bytes of a record boundary and every 23rd elsewhere), each separating newline deleted, 13 garbage lines (empty, NULs, invalid UTF-8, half code point, 4 KiB, two tabs, valid "
                          "checksum + non-object JSON, CR-terminated copy, ...) inserted at every record boundary, records transposed / duplicated / fragments duplicated; distinct = distinct tuples",
                     technique="exhaustive fault enumeration on index files, differential oracle against the independent reference decoder plus containment check against the write history",
                     assumptions=["a record line that merely gained a trailing CR may be honoured (all line readers strip CRLF): the reference does the same",
                                  "foreign-key records inside a bucket model what a SHA-1 collision would leave"],
                     seed=seed, timeout=20.0)
