"""C07 — concurrent, lock-free use by several processes behaves like some serial order.

fsx sched mode: 2-3 real library processes (or threads of one process) are stopped at every file-system system
call; the controller enumerates all interleavings up to a preemption bound (CHESS-style iterative context
bounding). Every complete schedule is judged by serialisability: the replies of the actors and the final cache
state (observed by a fresh process through every lookup entry point) must equal what the dictionary model gives
for SOME sequential order of the operations; for the zero-preemption schedules it must be the order that ran.
"""
import itertools
import json
import os
import time

from vlib import fsutil, fsx, ref, seqx, tables, wr
from vlib.model import check_listing, entry_matches, entry_of_reply, observe_and_check
from vlib.run import V, classify
from checks.c03 import _acc

PROP = "C07"

VALS = {
    "x": {"n": 6, "tag": 81},
    "y": {"n": 30, "tag": 82},
}


def vals2():
    (n1, t1), (n2, t2) = tables.sibling_gen_values("sha256", 4)
    return {"p": {"n": n1, "tag": t1}, "q": {"n": n2, "tag": t2}}


def all_vals():
    d = dict(VALS)
    d.update(vals2())
    return d


def data_of(v):
    val = all_vals()[v]
    return ref.gen(val["n"], val["tag"])


def sri_of(v):
    return ref.sri("sha256", data_of(v))


def request(op, cache, side):
    """One library call for a model-level operation."""
    s = side == "s"
    k = op[0]
    if k == "write":
        val = all_vals()[op[2]]
        return {"op": "write_sync" if s else "write", "cache": cache, "key": op[1], "data": {"gen": [val["n"], val["tag"]]}}
    if k == "write_hash":
        val = all_vals()[op[1]]
        return {"op": "write_hash_sync" if s else "write_hash", "cache": cache, "data": {"gen": [val["n"], val["tag"]]}}
    if k == "read":
        return {"op": "read_sync" if s else "read", "cache": cache, "key": op[1]}
    if k == "read_hash":
        return {"op": "read_hash_sync" if s else "read_hash", "cache": cache, "sri": sri_of(op[1])}
    if k == "metadata":
        return {"op": "metadata_sync" if s else "metadata", "cache": cache, "key": op[1]}
    if k == "remove":
        return {"op": "remove_sync" if s else "remove", "cache": cache, "key": op[1]}
    if k == "remove_hash":
        return {"op": "remove_hash_sync" if s else "remove_hash", "cache": cache, "sri": sri_of(op[1])}
    if k == "exists":
        return {"op": "exists_sync" if s else "exists", "cache": cache, "sri": sri_of(op[1])}
    if k == "list":
        return {"op": "list_sync", "cache": cache}
    raise ValueError(op)


def model_step(model, op, rep, window, cache):
    """Does reply rep agree with the model for op in the current model state? Updates the model."""
    k = op[0]
    if k in ("write", "remove"):
        model.has_index = True  # index-v5 exists from now on (F7 no longer applies)
    if k == "write":
        d = data_of(op[2])
        ok = rep.get("ok") == sri_of(op[2])
        model.write(op[1], sri_of(op[2]), d, size=len(d), time=window)
        return ok
    if k == "write_hash":
        d = data_of(op[1])
        ok = rep.get("ok") == sri_of(op[1])
        model.write(None, sri_of(op[1]), d, size=len(d), time=window)
        return ok
    if k == "read":
        e = model.index.get(op[1])
        if e is None:
            return rep.get("err", {}).get("variant") == "EntryNotFound"
        d = model.content.get(e["integrity"])
        if d is None:
            return rep.get("err", {}).get("variant") == "IoError"
        return "ok" in rep and wr.data_matches(rep["ok"], d)
    if k == "read_hash":
        d = model.content.get(sri_of(op[1]))
        if d is None:
            return rep.get("err", {}).get("variant") == "IoError"
        return "ok" in rep and wr.data_matches(rep["ok"], d)
    if k == "metadata":
        if "ok" not in rep:
            return False
        return entry_matches(entry_of_reply(rep["ok"]), model.index.get(op[1]), op[1])
    if k == "remove":
        model.remove(op[1])
        return "ok" in rep
    if k == "remove_hash":
        present = model.remove_hash(sri_of(op[1]))
        if present:
            return "ok" in rep
        return rep.get("err", {}).get("variant") == "IoError"
    if k == "exists":
        return rep.get("ok") is (sri_of(op[1]) in model.content)
    if k == "list":
        bads = []
        check_listing(lambda what, sig, extra: bads.append(sig), rep, model, cache, f7_ok=not getattr(model, "has_index", False))
        return not bads
    raise ValueError(op)


def pairs(tier):
    """Curated conflicting operation pairs/triples (arguments forced to collide)."""
    a, b, c = tables.key_family()
    cur = [
        ("writers-same-key", [("write", a, "x"), ("write", a, "y")]),
        ("writers-same-key-same-content", [("write", a, "x"), ("write", a, "x")]),
        ("writers-different-keys-identical-content", [("write", a, "x"), ("write", b, "x")]),
        ("writers-sibling-keys", [("write", a, "x"), ("write", b, "y")]),
        ("writers-sibling-content", [("write", a, "p"), ("write", c, "q")]),
        ("write-vs-read", [("write", a, "y"), ("read", a)]),
        ("write-vs-read_hash", [("write", a, "y"), ("read_hash", "y")]),
        ("write-vs-metadata", [("write", a, "y"), ("metadata", a)]),
        ("write-vs-remove", [("write", a, "y"), ("remove", a)]),
        ("write-vs-remove_hash", [("write", a, "y"), ("remove_hash", "y")]),
        ("write_hash-vs-write_hash", [("write_hash", "y"), ("write_hash", "y")]),
        ("write_hash-vs-exists", [("write_hash", "y"), ("exists", "y")]),
        ("write-vs-list", [("write", a, "y"), ("list",)]),
        ("remove-vs-remove", [("remove", a), ("remove", a)]),
        ("remove-vs-read", [("remove", a), ("read", a)]),
        ("remove_hash-vs-read", [("remove_hash", "x"), ("read", a)]),
        ("remove-vs-list", [("remove", a), ("list",)]),
        ("remove_hash-vs-remove_hash", [("remove_hash", "x"), ("remove_hash", "x")]),
        ("remove_hash-vs-read_hash", [("remove_hash", "x"), ("read_hash", "x")]),
        ("remove_hash-vs-exists", [("remove_hash", "x"), ("exists", "x")]),
        # a key nobody has written yet: its bucket file (and bucket directory) do not exist even on a warm cache
        ("writers-fresh-key", [("write", "fresh-key-z", "x"), ("write", "fresh-key-z", "y")]),
        ("write-vs-remove-fresh-key", [("write", "fresh-key-z", "y"), ("remove", "fresh-key-z")]),
    ]
    if tier == "quick":
        return cur
    kinds = [("write", a, "y"), ("write_hash", "y"), ("read", a), ("read_hash", "y"), ("metadata", a), ("remove", a), ("remove_hash", "y"), ("exists", "y"), ("list",)]
    names = set()
    out = list(cur)
    for i in range(len(kinds)):
        for j in range(i, len(kinds)):
            if kinds[i][0] in ("read", "read_hash", "metadata", "exists", "list") and kinds[j][0] in ("read", "read_hash", "metadata", "exists", "list"):
                continue  # two read-only operations cannot conflict
            out.append(("pair-%s-%s" % (kinds[i][0], kinds[j][0]), [kinds[i], kinds[j]]))
    return out


def triples():
    a, b, c = tables.key_family()
    return [
        ("3-writers-same-key", [("write", a, "x"), ("write", a, "y"), ("write", a, "p")]),
        ("2-writers+reader", [("write", a, "x"), ("write", a, "y"), ("read", a)]),
        ("writer+remover+reader", [("write", a, "y"), ("remove", a), ("read", a)]),
        ("writer+remove_hash+read_hash", [("write", a, "y"), ("remove_hash", "y"), ("read_hash", "y")]),
        ("2-writers-identical-content+remove_hash", [("write", a, "x"), ("write", b, "x"), ("remove_hash", "x")]),
        ("writer+writer-sibling+list", [("write", a, "x"), ("write", b, "y"), ("list",)]),
    ]


def scenarios(tier):
    out = []
    quick = tier == "quick"

    def add(name, ops, init, flavour, bound, threads=False, por=False):
        assert not por or (bound is None and not threads)   # the reduction is only sound without a bound and between separate processes
        out.append({"id": len(out), "name": name + ("/por" if por else ""), "ops": ops, "init": init, "flavour": flavour, "bound": bound, "threads": threads, "por": por})

    exp = os.environ.get("VERIF_C07_EXPERIMENT")
    if exp:
        # development aid: the named pairs without a bound, by brute force and with the sleep-set reduction, side by side
        byname = dict(pairs("thorough"))
        for nm in exp.split(","):
            init = "warm"
            if nm.endswith("@cold"):
                nm, init = nm[:-5], "cold"
            if not nm.endswith("!"):
                add(nm, byname[nm], init, "sync", None)
            add(nm.rstrip("!"), byname[nm.rstrip("!")], init, "sync", None, por=True)
        return out
    for name, ops in pairs(tier):
        for init in ("cold", "warm"):
            add(name, ops, init, "sync", 2 if quick else 3)
    # all interleavings, no bound, with the sleep-set reduction (separate processes only): every curated pair on a warm
    # cache, and on a cold cache where the number of traces stays small (the rest in the thorough tier)
    # (on a cold cache every mkdir succeeds and is a write to an ancestor of everything below it: two writers then have
    # > 10^5 classes, so the writer-writer pairs stay preemption-bounded there)
    writer_pairs = {"writers-fresh-key", "write-vs-remove-fresh-key", "writers-same-key", "writers-same-key-same-content", "writers-different-keys-identical-content", "writers-sibling-keys", "writers-sibling-content"}
    mid_cold = {"remove-vs-remove", "write-vs-remove", "write_hash-vs-write_hash"}   # 10^3 - 10^4 classes: thorough tier
    for name, ops in pairs("quick"):
        add(name, ops, "warm", "sync", None, por=True)
        if name not in writer_pairs and (not quick or name not in mid_cold):
            add(name, ops, "cold", "sync", None, por=True)
    # the reduction is validated inside the check: these short pairs are ALSO explored by brute force (no bound, no
    # reduction); the sets of distinct results (replies + final tree) must coincide, else the run ends as a machinery error
    byname_q = dict(pairs("quick"))
    for nm in ("remove-vs-remove", "write-vs-remove_hash", "write_hash-vs-exists", "remove_hash-vs-remove_hash", "remove_hash-vs-exists") + \
            (() if quick else ("write-vs-remove", "write-vs-read", "write-vs-metadata", "remove-vs-read", "remove-vs-list")):
        add(nm, byname_q[nm], "warm", "sync", None)
    if quick:
        for name, ops in pairs("quick")[:4]:
            add(name, ops, "warm", "sync", 1, threads=True)
        add("writers-same-key", pairs("quick")[0][1], "warm", "astd", 1)
        add("writers-same-key", pairs("quick")[0][1], "warm", "astd", None, por=True)
        add("writers-same-key", pairs("quick")[0][1], "warm", "tok", None, por=True)
        # the async writers on buckets that do not exist yet (fresh key on a warm cache: unbounded; cold cache: one preemption)
        for fl_ in ("astd", "tok"):
            add("writers-fresh-key", byname_q["writers-fresh-key"], "warm", fl_, None, por=True)
            add("write-vs-remove-fresh-key", byname_q["write-vs-remove-fresh-key"], "warm", fl_, None, por=True)
            add("writers-same-key", pairs("quick")[0][1], "cold", fl_, 1)
            # an async writer of bytes that are already stored, against a reader / an existence test / a remover of that address
            for nm_ in ("write-vs-read_hash", "write_hash-vs-exists", "write-vs-remove_hash"):
                add(nm_, byname_q[nm_], "warm", fl_, None, por=True)
    else:
        cur_names = {n_ for n_, _ in pairs("quick")}
        for name, ops in pairs("thorough"):
            if name not in cur_names:
                add(name, ops, "warm", "sync", None, por=True)
                if not (ops[0][0] in ("write", "write_hash") and ops[1][0] in ("write", "write_hash")):
                    add(name, ops, "cold", "sync", None, por=True)
        for name, ops in pairs("quick"):
            add(name, ops, "warm", "astd", None, por=True)
            add(name, ops, "warm", "tok", None, por=True)
        for name, ops in triples():
            add(name, ops, "warm", "sync", None, por=True)
        for name, ops in triples():
            for init in ("cold", "warm"):
                add(name, ops, init, "sync", 2 if init == "warm" else 1)
        for name, ops in pairs("quick"):
            add(name, ops, "warm", "sync", 2, threads=True)
            add(name, ops, "warm", "astd", 1)
            add(name, ops, "warm", "tok", 1)
        # unbounded (all interleavings, no preemption bound) for the short conflicting pairs on a warm cache
        byname = dict(pairs("quick"))
        # the two-writer conflicts (11 + 11 steps on a warm cache = C(22,11) = 705 432 interleavings): one of them
        # completely (no bound, brute force: no partial-order reduction is implemented), the other at bound 4
        add("writers-same-key", byname["writers-same-key"], "warm", "sync", None)
        add("writers-different-keys-identical-content", byname["writers-different-keys-identical-content"], "warm", "sync", 4)
    return out


def build_init(ctx, sc, cache):
    fsutil.wipe(cache)
    model = seqx.new_model()
    if sc["init"] == "warm":
        srv = ctx.srv("sync")
        a, b, c = tables.key_family()
        t0 = int(time.time() * 1000) - 2
        for key, v in ((a, "x"), (b, "x"), (c, "p")):
            rep = srv.call(request(("write", key, v), cache, "s"))
            assert "ok" in rep, rep
            d = data_of(v)
            model.write(key, sri_of(v), d, size=len(d), time=(t0, int(time.time() * 1000) + 2))
        rep = srv.call(request(("write_hash", "y"), cache, "s"))
        model.write(None, sri_of("y"), data_of("y"), size=0, time=0)
    return fsutil.snapshot(cache), model


def worker(ctx, job):
    res = V.new()
    sc = job["sc"]
    cache = ctx.path("c07-cache")
    store = ctx.__dict__.setdefault("_c07", {})
    if sc["id"] not in store:
        store.clear()
        store[sc["id"]] = build_init(ctx, sc, cache)
    init_snap, init_model = store[sc["id"]]
    fsutil.restore(cache, init_snap)
    if init_snap is None:
        fsutil.wipe(cache)
    side = "s" if sc["flavour"] == "sync" or sc["threads"] else "a"
    n = len(sc["ops"])
    t0 = int(time.time() * 1000) - 2
    if sc["threads"]:
        pf = ctx.path("c07-threads.json")
        with open(pf, "w") as fh:
            json.dump([[request(op, cache, "s")] for op in sc["ops"]], fh)
        spec = {"roots": [cache], "threads": {"argv": [fsx.ops.opserver_bin(sc["flavour"]), "threads", "@" + pf], "n": n}, "schedule": job["prefix"], "timeout_ms": 20000}
    else:
        actors = []
        for i, op in enumerate(sc["ops"]):
            pf = ctx.path("c07-prog%d.json" % i)
            with open(pf, "w") as fh:
                json.dump([request(op, cache, side)], fh)
            actors.append(fsx.actor(sc["flavour"], str(i), pf))
        spec = {"roots": [cache], "actors": actors, "schedule": job["prefix"], "timeout_ms": 20000}
    def _once():
        fsutil.restore(cache, init_snap)
        if init_snap is None:
            fsutil.wipe(cache)
        return fsx.run(spec, ctx.dir)

    rep = fsx.confirmed(_once)   # a time-out is only a verdict if it reproduces on a fresh execution
    if rep.get("retried_after_timeout"):
        res["extra"]["timeouts_not_reproduced"] = res["extra"].get("timeouts_not_reproduced", 0) + (1 if rep["status"] == "ok" else 0)
    t1 = int(time.time() * 1000) + 2
    res["evals"] += 1
    replay = {"engine": "fsx", "mode": "sched", "scenario": sc, "schedule": [d["chosen"] for d in rep["decisions"]]}
    if rep["status"] == "schedule-divergence":
        raise fsx.TracerError("schedule prefix %r not reproducible in scenario %s: %r" % (job["prefix"], sc["name"], rep["error"]))
    if rep["status"] != "ok":
        V.violation(res, "sched:%s/%s:%s" % (sc["name"], sc["flavour"], rep["status"]), "execution did not complete: %s (deadlock or hang under this schedule)" % rep["status"], replay)
        res["children"] = []
        return res
    tr = fsx.trace(rep, [cache])
    exp = job.get("expect")
    if exp is not None and [list(x) for x in tr[:len(exp)]] != [list(x) for x in exp]:
        raise fsx.TracerError("nondeterministic replay in %s: expected trace prefix %r, got %r" % (sc["name"], exp[-3:], tr[:len(exp)][-3:]))
    if sc["threads"]:
        tr_rep = fsx.thread_replies(rep)
        replies = [(r[0] if r else {"missing": True}) for r in tr_rep] if tr_rep else [{"missing": True}] * n
    else:
        replies = [(fsx.replies(rep, i) or [{"missing": True}])[0] for i in range(n)]
    for i, r in enumerate(replies):
        if not ("ok" in r or "err" in r):
            V.violation(res, "sched:%s/%s:actor-%s-%s" % (sc["name"], sc["flavour"], sc["ops"][i][0], classify(r)), "actor %d did not return a value: %r" % (i, r), replay)
    # serialisability
    a, b, c = tables.key_family()
    keys_ = [a, b, c, "fresh-key-z"]
    addrs = [sri_of(v) for v in all_vals()]
    window = (t0, t1)
    order_ran = serial_order(rep, n)
    accepted = None
    all_accepted = []
    perms = list(itertools.permutations(range(n)))
    if order_ran is not None:
        perms = [order_ran]
    for perm in perms:
        m = init_model.clone()
        m.has_index = sc["init"] == "warm"
        ok = True
        for i in perm:
            if not model_step(m, sc["ops"][i], replies[i], window, cache):
                ok = False
        if not ok:
            continue
        scratch = V.new()
        observe_and_check(ctx, scratch, ctx.srv("sync"), "sync", cache, m, keys_, addrs, sig_prefix="x", replay={})
        res["transitions"] += scratch["transitions"]
        if not scratch["violations"]:
            accepted = perm if accepted is None else accepted
            all_accepted.append("".join(map(str, perm)))
            if n > 2:
                break   # for triples the first explaining order is enough (6 permutations x observation vector)
            continue
        last_diff = scratch["violations"][0]
    if sc["bound"] is None and not sc["threads"]:
        import re as _re
        snap_fp = {}
        for rel_, e_ in (fsutil.snapshot(cache) or {}).items():
            if e_[0] == "f" and rel_.startswith(ref.INDEX_DIR + "/"):
                # wall-clock digits and the checksums computed over them are not results (they differ from run to run)
                e_ = ("f", _re.sub(rb"\d{13,}", b"T", _re.sub(rb"[0-9a-f]{64}", b"H", e_[1])))
            snap_fp[rel_] = e_
        fp = V.h(sorted((k_, v_) for k_, v_ in snap_fp.items() if not k_.startswith("tmp/")), _re.sub(r"\d{13,}", "T", json.dumps(replies, sort_keys=True).replace(cache, "<cache>")))
        res["extra"]["fp:%s|%s|%s" % (sc["name"], sc["init"], sc["flavour"])] = [fp]
        if rep["status"] == "ok" and sc["flavour"] == "sync":
            # the class of this interleaving under the dependence relation (validation of the reduction, see main)
            idirs_ = {cache} | {os.path.join(cache, r_) for r_, e_ in (init_snap or {}).items() if e_[0] == "d"}
            st_ = [s_ for s_ in rep["steps"] if s_.get("step") is not None]
            res["extra"]["tc:%s|%s|%s" % (sc["name"], sc["init"], sc["flavour"])] = [V.h(fsx.canonical_trace(rep["decisions"], st_, [cache], idirs_))]
    outcome = "explained-by-serial-order:%s" % ("+".join(all_accepted) if all_accepted else "NONE")
    V.outcome(res, outcome)
    res["distinct"].add(V.h(sc["id"], tuple(d["chosen"] for d in rep["decisions"])))
    res["extra"]["outcome:%s:%s" % (sc["name"], outcome)] = 1
    res["extra"]["n:%s (%s, %s%s)" % (sc["name"], sc["init"], sc["flavour"], ", threads" if sc["threads"] else "")] = 1
    if accepted is None:
        what = "replies %s and final state match no sequential order of %s" % ([short(r) for r in replies], sc["ops"])
        if order_ran is not None:
            what = "sequential run in order %s disagrees with the model: " % (order_ran,) + what
        V.violation(res, "sched:%s/%s%s:not-serialisable" % (sc["name"], sc["flavour"], "/threads" if sc["threads"] else ""), what, replay)
    if sc.get("por"):
        init_dirs = {cache} | {os.path.join(cache, r_) for r_, e_ in (init_snap or {}).items() if e_[0] == "d"}
        steps_ = [s_ for s_ in rep["steps"] if s_.get("step") is not None]
        res["children"] = [(p, [list(x) for x in tr[:len(p) - 1]], sl) for p, sl in fsx.children_sleep(rep["decisions"], steps_, len(job["prefix"]), job.get("sleep"), init_dirs, [cache])]
    else:
        res["children"] = [(p, [list(x) for x in tr[:len(p) - 1]], None) for p in fsx.children(rep["decisions"], len(job["prefix"]), sc["bound"])]
    res["nsteps"] = len(tr)
    res["sc_id"] = sc["id"]
    res["transitions"] += len(tr)
    if not job["prefix"]:
        res["samples"].append({"scenario": sc["name"], "init": sc["init"], "flavour": sc["flavour"], "threads": sc["threads"], "steps_per_actor": [a_["steps"] for a_ in rep["actors"]],
                               "schedule": [d["chosen"] for d in rep["decisions"]]})
    return res


def serial_order(rep, n):
    """If the execution ran the actors strictly one after another, the order; else None."""
    seq = [d["chosen"] for d in rep["decisions"]]
    order = []
    for x in seq:
        if not order or order[-1] != x:
            if x in order:
                return None
            order.append(x)
    if len(order) != n:
        # actors without steps (cannot happen for library calls) are appended
        order += [i for i in range(n) if i not in order]
    return tuple(order)


def short(r):
    s = json.dumps(r)
    return s if len(s) < 160 else s[:160] + "..."


def main(tier, seed=0):
    import multiprocessing as mp
    from vlib import run as R
    t0 = time.time()
    scs = scenarios(tier)
    counter = mp.Value("i", 0)
    pool = mp.Pool(R.NPROC, initializer=R._init, initargs=(R.base_dir(), counter, tier, seed, 20.0, worker))
    agg = V.new()
    merr = []
    per_sc = {}
    fps = {}
    capped = False
    budget = 240 if tier == "quick" else 6000
    try:
        by_id = {sc["id"]: sc for sc in scs}
        gen = [{"sc": sc, "prefix": [], "expect": None} for sc in scs]
        while gen and not merr:
            nxt = []
            gen.sort(key=lambda j: j["sc"]["id"])
            for r in pool.imap_unordered(R._work, gen, chunksize=4):
                if "machinery_error" in r:
                    merr.append(r["machinery_error"])
                    continue
                _acc(agg, r)
                for k, v in r["extra"].items():
                    if isinstance(v, list):
                        fps.setdefault(k, set()).update(v)
                    # numeric extras (outcome counts per scenario) are summed by _acc above
                for p_, e_, sl_ in r.get("children", []):
                    nxt.append({"sc": by_id[r["sc_id"]], "prefix": p_, "expect": e_, "sleep": sl_})
            # children are attached by id lookup below
            gen = nxt
            if time.time() - t0 > budget:
                capped = bool(gen)
                break
    finally:
        pool.terminate()
        pool.join()
    agg["states"] = len(agg["distinct"])
    outcomes_per_sc = {}
    for k in list(agg["extra"]):
        if k.startswith("outcome:"):
            _, name, oc = k.split(":", 2)
            outcomes_per_sc.setdefault(name, {})[oc] = agg["extra"].pop(k)
    for k in [k_ for k_ in agg["extra"] if k_.startswith("fp:")]:
        agg["extra"].pop(k)     # _acc merges list-valued extras too; the sets are kept in fps
    if fps and not capped:
        val = {}
        for k, v in sorted(fps.items()):
            if not k.startswith("fp:"):
                continue
            nm, init_, fl_ = k[3:].split("|")
            twin = "fp:%s/por|%s|%s" % (nm, init_, fl_)
            if not nm.endswith("/por") and twin in fps:
                red = fps[twin]
                tcb, tcr = fps.get("tc:" + k[3:], set()), fps.get("tc:" + twin[3:], set())
                val["%s (%s, %s)" % (nm, init_, fl_)] = {"distinct_results_brute_force": len(v), "distinct_results_reduced": len(red), "same_result_set": red == v,
                                                       "interleaving_classes_brute_force": len(tcb), "interleaving_classes_reduced": len(tcr), "same_class_set": tcb == tcr}
                if red != v:
                    merr.append("sleep-set reduction disagrees with brute force on %s (%s cache): %d vs %d distinct results" % (nm, init_, len(red), len(v)))
                if tcb != tcr:
                    merr.append("sleep-set reduction misses interleaving classes on %s (%s cache): brute force saw %d, reduced search %d (%d missing)" % (
                        nm, init_, len(tcb), len(tcr), len(tcb - tcr)))
        agg["extra"]["reduction_validated_against_brute_force"] = val
    agg["extra"]["schedules_per_scenario"] = {k[2:]: agg["extra"].pop(k) for k in sorted(k_ for k_ in agg["extra"] if k_.startswith("n:"))}
    single = sorted(n for n, o in outcomes_per_sc.items() if len(o) == 1)
    agg["extra"].update({"scenarios": len(scs), "serial_orders_per_scenario": outcomes_per_sc, "scenarios_with_one_outcome_only": single,
                         "preemption_bounds": sorted({str(s["bound"]) for s in scs})})
    return R.finish(PROP, tier, agg, merr, time.time() - t0, level="model_checking",
                    rule="state space = all interleavings, at file-system system-call granularity, of 2-3 real library processes (or threads) per scenario; scenarios named */por: "
                         "ALL interleavings without a bound, one execution per class of interleavings that differ only in the order of adjacent independent steps (sleep sets; "
                         "independence = different paths, or same path / ancestor directory without a write); other scenarios: every interleaving up to the scenario's preemption "
                         "bound, or (bound 'None') every interleaving by brute force; the reduction is cross-checked in every run against brute force on the short pairs "
                         "(coverage.reduction_validated_against_brute_force); one evaluation = one complete schedule executed on the real code; distinct = distinct schedules; "
                         "non-trivial: arguments are forced to collide (same key, identical content, sibling index/content directories, reader/remover of the thing being written)",
                    technique="stateless model checking of the implementation under a ptrace scheduler (fsx): unbounded exploration with sleep-set partial-order reduction plus preemption-bounded exhaustive enumeration, serialisability oracle against the dictionary model",
                    assumptions=["one file-system system call is the atomic step (the property's own granularity)", "clear and remove_fully are excluded by the property", "the independence relation of the reduction is only used between separate processes (threads of one process share memory and are explored by bounded enumeration only)",
                                 "schedule replay is checked: a prefix that does not reproduce its trace aborts the run as a machinery error"],
                    seed=seed, capped=capped, jobs_done=agg["evals"], jobs_total=agg["evals"], exhaustive=not capped)
