"""C01 — checked reads never deliver bytes that differ from what was stored.

Fault enumeration on the on-disk state: for each algorithm x stored size, every damage state of the content
file (every single-bit flip and every truncation length of small files; boundary offsets of large ones;
extension, empty, the bytes of another valid entry, symlink substitution, directory) x every checked retrieval
entry point of every flavour (streamed reads with several buffer sizes). Oracle: Err, or the delivered bytes are
the stored bytes.
"""
import os

from vlib import damage, fsutil, ref, retr, tables, wr
from vlib.ops import is_async
from vlib.run import V, classify, run_check

PROP = "C01"


def make_jobs(tier):
    quick = tier == "quick"
    jobs = []
    if quick:
        combos = [(a, n) for a in ref.ALGOS for n in (0, 1, 5)] + [("sha256", 16), ("xxh3", 16), ("sha1", 1025), ("sha512", 1025), ("sha256", 8193), ("xxh3", ref.MIB + 1)]
    else:
        combos = [(a, n) for a in ref.ALGOS for n in (0, 1, 5, 16, 64, 1025, 8193)] + [(a, n) for a in ("sha256", "xxh3", "sha512") for n in (16385, ref.MIB, ref.MIB + 1, 3 * ref.MIB + 17)]
    for flavour in ("sync", "astd", "tok"):
        for algo, n in combos:
            jobs.append({"flavour": flavour, "algo": algo, "n": n})
    for flavour in ("sync", "astd", "tok"):
        for n in (5, 8193):
            jobs.append({"kind": "short", "flavour": flavour, "n": n})
    return jobs


def bufsizes(n, quick):
    if n <= 64:
        return [1, 1024, n + 1] if quick else [1, 2, 7, 1024, 8192, n + 1]
    if n <= 8193:
        return [7, 8192] if quick else [7, 1024, 8192, n + 1]
    return [8192] if quick else [1024, 8192, n + 1]


def short_worker(ctx, job):
    """Every read of a checked retrieval answered short (a legal POSIX answer), on pristine and damaged content:
    a checker that is fed the buffer instead of the bytes actually read would pass every test and fail here."""
    import json as _json
    from vlib import fsx
    res = V.new()
    flavour, n = job["flavour"], job["n"]
    side = "s" if flavour == "sync" else "a"
    suf = "_sync" if side == "s" else ""
    setup = ctx.srv("sync")
    cache = ctx.path("c01s-cache")
    aux = ctx.path("c01s-aux")
    fsutil.wipe(cache)
    fsutil.wipe(aux)
    os.makedirs(aux)
    data = ref.gen(n, 43)
    key = "the-key"
    wr.do_write(setup, cache, side="s", entry="oneshot", key=key, n=n, tag=43)
    sri = ctx.sri("sha256", data)
    cpath = os.path.join(cache, ref.content_rel(sri))
    base = fsutil.snapshot(cache)
    dest = os.path.join(aux, "dest")
    want = {"len": n, "sha256": ref.sha256hex(data)}
    progs = {
        "read": [{"op": "read" + suf, "cache": cache, "key": key}],
        "read_hash": [{"op": "read_hash" + suf, "cache": cache, "sri": sri}],
        "stream": [{"op": ("sr_" if side == "s" else "ar_") + "open", "cache": cache, "key": key}, {"op": "r_stream", "h": {"ref": 0}, "n": 1000}],
        "copy": [{"op": "copy" + suf, "cache": cache, "key": key, "to": dest}],
        "hard_link": [{"op": "hard_link" + suf, "cache": cache, "key": key, "to": dest}],
    }
    d = bytearray(data)
    d[n // 2] ^= 0x04
    states = {"pristine": data, "bitflip": bytes(d), "truncated": data[:-1], "extended": data + b"\x00"}
    for sname, content in states.items():
        for ename, prog in progs.items():
            pf = ctx.path("prog-c01s.json")
            with open(pf, "w") as fh:
                _json.dump(prog, fh)

            def run_one(faults):
                fsutil.restore(cache, base)
                with open(cpath, "wb") as fh:
                    fh.write(content)
                fsutil.wipe(dest)
                return fsx.run({"roots": [cache, aux], "actors": [fsx.actor(flavour, "R", pf)], "timeout_ms": 20000, "faults": faults}, ctx.dir)

            _raw_run_one = run_one
            run_one = lambda faults, _f=_raw_run_one: fsx.confirmed(lambda: _f(faults))
            probe = run_one([])
            steps = [s_ for s_ in probe["steps"] if s_.get("step") is not None]
            sets = [[]]
            for i, st in enumerate(steps):
                if st["sys"] in ("read", "pread64") and st["len"] > 1:
                    for t in fsx.short_lengths(min(st["len"], max(n, 2))):
                        sets.append([{"step": i, "short": t, "sysname": st["sys"]}])
            if ctx.tier != "quick":
                singles = [x[0] for x in sets[1:]]
                for a_ in singles[:6]:
                    for b_ in singles:
                        if b_["step"] > a_["step"]:
                            sets.append([a_, b_])
            for faults in sets:
                rep = run_one(faults)
                res["evals"] += 1
                fdesc = "+".join("%s@%d->%d" % (f["sysname"], f["step"], f["short"]) for f in faults) or "none"
                res["distinct"].add(V.h("short", flavour, n, sname, ename, fdesc))
                replay = {"engine": "fsx", "mode": "short", "flavour": flavour, "n": n, "content": sname, "entry": ename, "faults": faults}
                sig = "checked-read-short:%s%s:%s" % (ename, suf, sname)
                if rep["status"] != "ok":
                    V.violation(res, sig + ":" + rep["status"], "execution under short reads %s: %s" % (fdesc, rep["status"]), replay)
                    continue
                out = fsx.replies(rep, 0)
                last = out[-1] if out else {"missing": True}
                V.outcome(res, "short:%s:%s" % (sname, classify(last)))
                if not ("ok" in last or "err" in last) or last.get("panics"):
                    V.violation(res, sig + ":" + classify(last), "call did not return a value: %s" % _short(last), replay)
                    continue
                if "ok" in last:
                    if ename in ("copy", "hard_link"):
                        b = damage.read_dest(dest)
                        delivered = {"len": -1 if b is None else len(b), "sha256": "" if b is None else ref.sha256hex(b)}
                    elif ename == "stream":
                        delivered = last["ok"]["data"]
                    else:
                        delivered = last["ok"]
                    if delivered["len"] != want["len"] or delivered["sha256"] != want["sha256"]:
                        V.violation(res, sig + ":delivered-wrong-bytes", "with short reads %s on %s content, %s succeeded and delivered %s" % (fdesc, sname, ename, delivered), replay)
                elif sname == "pristine":
                    V.violation(res, sig + ":" + classify(last), "short reads %s made the retrieval of intact content fail: %s" % (fdesc, _short(last)), replay)
    fsutil.wipe(cache)
    fsutil.wipe(aux)
    res["samples"].append({"kind": "short-reads", "flavour": flavour, "n": n})
    return res


def worker(ctx, job):
    if job.get("kind") == "short":
        return short_worker(ctx, job)
    res = V.new()
    flavour, algo, n = job["flavour"], job["algo"], job["n"]
    quick = ctx.tier == "quick"
    srv = ctx.srv(flavour)
    cache = ctx.fresh("c01-")
    aux = ctx.fresh("c01aux-")
    os.makedirs(aux)
    data = ref.gen(n, 41)
    other = ref.gen(n, 42) if n else None
    key, okey = "the-key", "other-key"
    rep, _ = wr.do_write(srv, cache, side="s", entry="oneshot_algo", key=key, algo=algo, n=n, tag=41)
    sri = ctx.sri(algo, data)
    if rep.get("ok") != sri:
        raise RuntimeError("setup write failed: %r" % rep)
    if other is not None:
        wr.do_write(srv, cache, side="s", entry="oneshot_algo", key=okey, algo=algo, n=n, tag=42)
    cpath = os.path.join(cache, ref.content_rel(sri))
    want = {"len": n, "sha256": ref.sha256hex(data)}
    entries = retr.checked(flavour)
    if flavour != "sync":
        entries = [e for e in entries if not e[0].endswith("_sync")] if quick else entries
    dest = os.path.join(aux, "dest")
    states = [("pristine", "pristine", "bytes", data)] + list(damage.damages(data, other, exhaustive_limit=64 if not quick else 16, aux_dir=aux))
    dest_damages = {st_[0] for st_ in states[1:4]} | {st_[0] for st_ in states[-3:]}
    # every damage state is also visited with the content file's modification time set back before the entry's time
    # (damage that keeps or restores the mtime: a swap by rename, a restored backup, bit rot)
    states = [st_ + (False,) for st_ in states] + [st_ + (True,) for st_ in states if st_[2] == "bytes" and (st_[0] in dest_damages or st_[1] in ("swap", "multibyte"))]
    for dname, klass, kind, payload, old_mtime in states:
        damage.apply(cpath, kind, payload, aux)
        if old_mtime:
            os.utime(cpath, (1_000_000_000, 1_000_000_000))
            dname = dname + "+old-mtime"
        res["states"] += 1
        for name, by, rk in entries:
            bufs = bufsizes(n, quick) if rk == "stream" else [0]
            # extractions are also run onto a destination that already exists (longer / same length / shorter than the entry,
            # other bytes): what the caller then holds at the destination must still be exactly the stored bytes
            dstates = [None]
            if rk in ("copy", "link", "reflink") and n <= 1025 and (klass == "pristine" or dname in dest_damages):
                dstates += ["longer", "same-length", "shorter"]
            if rk == "link" and os.path.isfile(cpath) and not os.path.islink(cpath):
                # the destination already is a hard link to the content file (an earlier extraction): it shares whatever
                # happened to that inode since
                dstates += ["linked-to-content"]
            for buf, dstate in [(b_, d_) for b_ in bufs for d_ in dstates]:
                fsutil.wipe(dest)
                if dstate == "linked-to-content":
                    os.link(cpath, dest)
                elif dstate is not None:
                    with open(dest, "wb") as fh_:
                        fh_.write(ref.gen({"longer": n + 37, "same-length": max(n, 1), "shorter": max(n - 1, 0)}[dstate], 77))
                rep, delivered = retr.retrieve(srv, cache, name, rk, key=key, sri=sri, dest=dest, buf=buf or 1024)
                res["evals"] += 1
                res["transitions"] += 1
                case = {"flavour": flavour, "algo": algo, "n": n, "damage": dname, "entry": name, "buf": buf, "destination": dstate or "absent"}
                if klass != "pristine" or dstate is not None:
                    res["distinct"].add(V.h(flavour, algo, n, dname, name, buf, dstate))
                if not ("ok" in rep or "err" in rep) or rep.get("panics"):
                    V.violation(res, "checked-read:%s:%s:%s" % (name, klass, classify(rep)), "call did not return a value: %s" % _short(rep),
                                {"engine": "seqx", "case": case, "reply": rep})
                    continue
                if delivered is not None:
                    same = delivered["len"] == want["len"] and delivered["sha256"] == want["sha256"]
                    if not same:
                        V.violation(res, "checked-read:%s:%s:delivered-wrong-bytes%s" % (name, klass, "" if dstate is None else ":destination-" + dstate),
                                    "%s succeeded on damage %s (destination before the call: %s) and delivered %s instead of the %d stored bytes" % (name, dname, dstate or "absent", delivered, n),
                                    {"engine": "seqx", "case": case, "reply": rep})
                        V.outcome(res, "WRONG-BYTES")
                        continue
                    if rk == "copy" and delivered.get("count") != n:
                        V.violation(res, "checked-read:%s:%s:wrong-count" % (name, klass), "copy returned count %s for %d bytes" % (delivered.get("count"), n),
                                    {"engine": "seqx", "case": case, "reply": rep})
                    V.outcome(res, "%s:ok" % klass)
                else:
                    if klass in ("pristine", "symlink-identical") and rk != "reflink" and not (dstate is not None and rk == "link"):
                        V.violation(res, "checked-read:%s:%s:%s" % (name, klass, classify(rep)), "retrieval of intact content failed: %s" % _short(rep),
                                    {"engine": "seqx", "case": case, "reply": rep})
                    V.outcome(res, "%s:err" % klass)
                    if rk == "reflink":
                        V.outcome(res, "reflink-unsupported-or-err")
    fsutil.wipe(cache)
    fsutil.wipe(aux)
    res["samples"].append({"flavour": flavour, "algo": algo, "n": n, "damage_states": len(states), "entry_points": [e[0] for e in entries][:6] + ["..."]})
    return res


def _short(rep):
    s = repr(rep)
    return s if len(s) < 300 else s[:300] + "..."


def main(tier, seed=0):
    return run_check(PROP, tier, make_jobs(tier), worker, level="fault_enumeration",
                     rule="case = (flavour build, algorithm, stored size, damage state of the content file, checked retrieval entry point, stream buffer size); "
                          "damage states: every single-bit flip and every truncation length for small files, boundary offsets for large ones, extension, empty, doubled, "
                          "bytes of another valid entry, swapped/zeroed bytes, symlink to different/identical/dangling target, directory; distinct = distinct tuples on "
                          "non-pristine states",
                     technique="exhaustive fault enumeration on the on-disk state, every checked retrieval executed on every damage state",
                     assumptions=["reflink cannot succeed on tmpfs/ext4: its Ok outcomes are constrained, its failures are not (count in outcomes)",
                                  "delivered bytes are compared by length and SHA-256"],
                     seed=seed, timeout=30.0)
