"""C11 — index metadata is returned exactly as supplied, with truthful defaults.

Bounded-exhaustive input enumeration (seqx): key x timestamp x JSON metadata x raw metadata x declared size x
entry point (index::insert*, WriteOpts::open* + commit, one-shot writes, Writer::create*) x flavour; quick covers
every value of every table at least once per entry point (strided products), thorough the full two-way products
metadata x entry point x flavour and timestamp x key x entry point x flavour.
"""
import time

from vlib import fsutil, ref, tables, wr
from vlib.model import entry_of_reply
from vlib.ops import is_async
from vlib.run import V, classify, run_check

PROP = "C11"


def make_jobs(tier):
    jobs = []
    for flavour in ("sync", "astd", "tok"):
        sides = ["s"] if not is_async(flavour) else ["s", "a"]
        for side in sides:
            if tier == "quick" and flavour == "tok" and side == "s":
                continue
            for kind in ("insert", "open", "defaults", "integrity"):
                nshards = (2 if tier == "quick" else 4) if kind in ("insert", "open") else 1
                for sh in range(nshards):
                    jobs.append({"flavour": flavour, "side": side, "kind": kind, "shard": sh, "nshards": nshards})
    return jobs


def cases_for(kind, tier, shard, nshards):
    metas = tables.json_values(full=True)
    keys = tables.KEYS_HOSTILE
    times = tables.TIMES
    raws = [None] + tables.RAW_METAS
    out = []
    if False:
        n = max(len(metas), len(keys), len(times))
        for i in range(n):
            out.append((keys[(i * 7) % len(keys)], times[(i * 5) % len(times)], metas[i % len(metas)], raws[i % len(raws)], [None, 3, 0, 2 ** 40][i % 4]))
    else:
        i = 0
        for m in metas:                      # metadata x (entry, flavour): full
            out.append((keys[i % len(keys)], times[i % len(times)], m, raws[i % len(raws)], [None, 3][i % 2]))
            i += 1
        for t in times:                      # time x key: full
            for k in keys:
                out.append((k, t, metas[i % len(metas)], raws[i % len(raws)], [None, 0, 2 ** 63][i % 3]))
                i += 1
        for r in raws:
            for k in keys[:6]:
                out.append((k, times[i % len(times)], None, r, None))
                i += 1
    return [c for j, c in enumerate(out) if j % nshards == shard]


def worker(ctx, job):
    res = V.new()
    flavour, side, kind = job["flavour"], job["side"], job["kind"]
    srv = ctx.srv(flavour)
    cache = ctx.fresh("c11-")
    s = side == "s"
    lookups = ["metadata_sync", "index_find"] + (["metadata", "index_find_async"] if is_async(flavour) else [])
    count = 0

    def verify(key, want, case, sigbase):
        """want: dict with integrity,size,time (int or (lo,hi)),metadata,raw_metadata"""
        for l in lookups + ["list_sync"]:
            if l == "list_sync":
                rep = srv.call({"op": "list_sync", "cache": cache})
                got = None
                if "ok" in rep:
                    items = [entry_of_reply(i["ok"]) for i in rep["ok"] if "ok" in i and i["ok"]["key"] == key]
                    got = items[0] if len(items) == 1 else None
            else:
                rep = srv.call({"op": l, "cache": cache, "key": key})
                got = entry_of_reply(rep["ok"]) if rep.get("ok") else None
            res["transitions"] += 1
            field = None
            if got is None:
                field = "missing"
            elif got["key"] != key:
                field = "key"
            elif got["integrity"] != want["integrity"]:
                field = "integrity"
            elif got["size"] != want["size"]:
                field = "size"
            elif (isinstance(want["time"], tuple) and not (want["time"][0] <= got["time"] <= want["time"][1])) or (not isinstance(want["time"], tuple) and got["time"] != want["time"]):
                field = "time"
            elif not ref.json_equal(got["metadata"], want["metadata"]):
                field = "metadata"
            elif got["raw_metadata"] != want["raw_metadata"]:
                field = "raw_metadata"
            if field:
                V.violation(res, "%s:%s:%s" % (sigbase, l, field), "%s returned %r, supplied %r" % (l, got if got else rep, want), {"engine": "seqx", "case": case, "reply": rep})
                return False
        return True

    if kind in ("insert", "open"):
        for ci, (key, t, meta, raw, dsize) in enumerate(cases_for(kind, ctx.tier, job["shard"], job["nshards"])):
            n = 3 if kind == "open" else 0
            if kind == "open" and dsize not in (None, 3):
                dsize = 3 if dsize is not None else None
            opts = {"time": str(t), "metadata": meta}
            if raw is not None:
                opts["raw_metadata"] = raw.hex()
            if dsize is not None:
                opts["size"] = dsize
            case = {"flavour": flavour, "side": side, "kind": kind, "key": key if len(key) < 60 else key[:20] + "...", "time": t, "metadata": meta, "raw": raw, "size": dsize}
            res["evals"] += 1
            count += 1
            res["distinct"].add(V.h(flavour, side, kind, key, t, repr(meta), raw, dsize))
            if kind == "insert":
                sri = "sha256-47DEQpj8HBSa+/TImW+5JCeuQeRkm5NMpJWZG3hSuFU="
                opts["integrity"] = sri
                rep = srv.call({"op": "index_insert" if s else "index_insert_async", "cache": cache, "key": key, "opts": opts})
                wsize = dsize if dsize is not None else 0
            else:
                rep, _ = wr.do_write(srv, cache, side=side, entry="open", key=key, algo="sha1", n=n, tag=ci % 200, opts=opts)
                sri = ctx.sri("sha1", ref.gen(n, ci % 200))
                wsize = n
            sigbase = "meta:%s/%s" % (kind, side)
            if "ok" not in rep:
                V.violation(res, "%s:write-%s" % (sigbase, classify(rep)), "write failed: %r" % rep, {"engine": "seqx", "case": case, "reply": rep})
                continue
            ok = verify(key, {"integrity": sri, "size": wsize, "time": t, "metadata": meta, "raw_metadata": raw}, case, sigbase)
            V.outcome(res, "roundtrip-ok" if ok else "roundtrip-differs")
            if count % 60 == 0:
                fsutil.wipe(cache)
    elif kind == "integrity":
        # a declared integrity value is part of what the writer attaches: returned unchanged (canonical order)
        order = {"sha512": 0, "sha384": 1, "sha256": 2, "sha1": 3, "xxh3": 4}
        for algo in ("sha256", "sha512", "sha1"):
            for n in (0, 4, 1025):
                data = ref.gen(n, 9)
                own = ctx.sri(algo, data)
                weaker = [a for a in ("sha1", "sha256", "sha512") if order[a] > order[algo]]
                forms = [("single", own)] + [("multi-with-weaker-%s" % w, ctx.sri(w, data) + " " + own) for w in weaker]
                for fname, declared in forms:
                    key = "int-%s-%d-%s" % (algo, n, fname)
                    rep, _ = wr.do_write(srv, cache, side=side, entry="open", key=key, algo=algo, n=n, tag=9, opts={"integrity": declared, "time": "3"})
                    res["evals"] += 1
                    count += 1
                    res["distinct"].add(V.h(flavour, side, "integrity", algo, n, fname))
                    case = {"flavour": flavour, "side": side, "kind": "integrity", "algo": algo, "n": n, "declared": declared}
                    sigbase = "meta:declared-integrity-%s/%s" % (fname.split("-")[0], side)
                    canon = " ".join(sorted(declared.split(), key=lambda h: (order[h.split("-")[0]], h)))
                    if "ok" not in rep:
                        V.violation(res, "%s:write-%s" % (sigbase, classify(rep)), "write with a correct declared integrity failed: %r" % rep, {"engine": "seqx", "case": case, "reply": rep})
                        continue
                    if rep["ok"] != canon:
                        V.violation(res, "%s:commit-returns-other-integrity" % sigbase, "commit returned %s, declared %s" % (rep["ok"], canon), {"engine": "seqx", "case": case, "reply": rep})
                    ok = verify(key, {"integrity": canon, "size": n, "time": 3, "metadata": None, "raw_metadata": None}, case, sigbase)
                    V.outcome(res, "declared-integrity-ok" if ok else "declared-integrity-differs")
    else:
        # truthful defaults: nothing supplied
        entries = ["oneshot", "oneshot_algo", "create", "create_algo", "open"]
        for n in (0, 1, 5, 1025, ref.MIB + 1):
            for ei, entry in enumerate(entries):
                for chunks in ([None] if entry.startswith("oneshot") or n < 2 else [None, [1, n - 1]]):
                    key = "default-%s-%d" % (entry, n)
                    t0 = int(time.time() * 1000)
                    rep, _ = wr.do_write(srv, cache, side=side, entry=entry, key=key, algo="sha256", n=n, tag=7, chunks=chunks)
                    t1 = int(time.time() * 1000) + 1
                    res["evals"] += 1
                    res["distinct"].add(V.h(flavour, side, "defaults", entry, n, repr(chunks)))
                    case = {"flavour": flavour, "side": side, "kind": "defaults", "entry": entry, "n": n, "chunks": chunks}
                    sigbase = "defaults:%s/%s" % (entry, side)
                    if "ok" not in rep:
                        V.violation(res, "%s:write-%s" % (sigbase, classify(rep)), "write failed: %r" % rep, {"engine": "seqx", "case": case, "reply": rep})
                        continue
                    ok = verify(key, {"integrity": ctx.sri("sha256", ref.gen(n, 7)), "size": n, "time": (t0, t1), "metadata": None, "raw_metadata": None}, case, sigbase)
                    V.outcome(res, "defaults-ok" if ok else "defaults-differ")
            fsutil.wipe(cache)
        # the default time is the time of the COMMIT: a writer that is opened, fed and then committed a little later
        # records a time inside the commit call (not the moment it was opened or written to)
        pre = "sw_" if side == "s" else "aw_"
        for entry in ("create", "create_with_algo", "open"):
            key = "default-late-%s" % entry
            req = {"op": pre + entry, "cache": cache, "key": key}
            if entry == "create_with_algo":
                req["algo"] = "sha256"
            if entry == "open":
                req["opts"] = {}
            ro = srv.call(req)
            case = {"flavour": flavour, "side": side, "kind": "defaults", "entry": entry, "commit_delayed_ms": 120}
            sigbase = "defaults:%s/%s:late-commit" % (entry, side)
            res["evals"] += 1
            res["distinct"].add(V.h(flavour, side, "defaults-late", entry))
            if "ok" not in ro:
                V.violation(res, "%s:open-%s" % (sigbase, classify(ro)), "open failed: %r" % ro, {"engine": "seqx", "case": case, "reply": ro})
                continue
            h = ro["ok"]["h"]
            srv.call({"op": "w_write_all", "h": h, "data": {"gen": [9, 8]}})
            time.sleep(0.12)
            t0 = int(time.time() * 1000)
            rep = srv.call({"op": "w_commit", "h": h})
            t1 = int(time.time() * 1000) + 1
            if "ok" not in rep:
                V.violation(res, "%s:commit-%s" % (sigbase, classify(rep)), "commit failed: %r" % rep, {"engine": "seqx", "case": case, "reply": rep})
                continue
            ok = verify(key, {"integrity": ctx.sri("sha256", ref.gen(9, 8)), "size": 9, "time": (t0 - 1, t1), "metadata": None, "raw_metadata": None}, case, sigbase)
            V.outcome(res, "defaults-ok" if ok else "defaults-differ")
        fsutil.wipe(cache)
    fsutil.wipe(cache)
    res["samples"].append({"flavour": flavour, "side": side, "kind": kind, "cases": count or "defaults"})
    return res


def main(tier, seed=0):
    return run_check(PROP, tier, make_jobs(tier), worker, level="exploration",
                     rule="case = (flavour, side, entry point kind, key, timestamp, JSON metadata value, raw metadata, declared size); every table value is used at least once per "
                          "entry point and flavour (quick: strided, thorough: full products metadata x entry and time x key x entry); defaults: 5 entry points x 5 sizes x chunkings; "
                          "every case is read back through metadata*, index::find* and list_sync and compared field by field with exact number comparison",
                     technique="bounded-exhaustive input enumeration against the real API with exact structural comparison",
                     assumptions=["timestamps are compared as integers up to 2^128-1; JSON numbers are 64-bit integers or short decimals as the property states",
                                  "raw index::insert without a size records 0 (there is no data to count)"],
                     seed=seed, timeout=20.0)
