// opserver: a closed driver around the public API of cacache.
//
// Front ends:
//   opserver serve                      JSON-lines requests on stdin, one JSON reply per line on stdout
//   opserver actor <tag> <program.json> run a list of requests between FSX begin/end marker syscalls,
//                                       replies as JSON lines on stdout
//   opserver threads <program.json>     program.json = [[req..],[req..],..]: one thread per list, each
//                                       bracketed by its own begin/end marker; replies printed at the end
//
// Every call runs inside catch_unwind; replies are normalised:
//   {"ok": value} | {"err": {"variant":..,"io_kind":..}} | {"panic": "..."}
// plus "bg_panics": [...] when a panic was recorded on another thread during the call.

use std::collections::HashMap;
use std::io::{BufRead, Read, Write};
use std::panic::{catch_unwind, AssertUnwindSafe};
use std::path::{Path, PathBuf};
use std::sync::Mutex;

use cacache::{Algorithm, Error, Integrity, Metadata, WriteOpts};
use serde_json::{json, Map, Value};
use sha2::{Digest, Sha256};

#[cfg(feature = "astd")]
use futures::io::{AsyncReadExt, AsyncWriteExt};
#[cfg(feature = "tok")]
use tokio::io::{AsyncReadExt, AsyncWriteExt};

#[cfg(all(feature = "astd", feature = "tok"))]
compile_error!("astd and tok are mutually exclusive");

static PANICS: Mutex<Vec<String>> = Mutex::new(Vec::new());

// ------------------------------------------------------------------ runtime

#[cfg(feature = "astd")]
fn ab<F: std::future::Future>(f: F) -> F::Output {
    async_std::task::block_on(f)
}

#[cfg(feature = "tok")]
fn ab<F: std::future::Future>(f: F) -> F::Output {
    use std::sync::OnceLock;
    static RT: OnceLock<tokio::runtime::Runtime> = OnceLock::new();
    let rt = RT.get_or_init(|| {
        tokio::runtime::Builder::new_current_thread()
            .enable_all()
            .max_blocking_threads(2)
            .build()
            .unwrap()
    });
    rt.block_on(f)
}

fn flavour() -> &'static str {
    if cfg!(feature = "astd") {
        "astd"
    } else if cfg!(feature = "tok") {
        "tok"
    } else {
        "sync"
    }
}

// ------------------------------------------------------------------ helpers

fn hexs(b: &[u8]) -> String {
    let mut s = String::with_capacity(b.len() * 2);
    for x in b {
        s.push_str(&format!("{:02x}", x));
    }
    s
}

fn unhex(s: &str) -> Result<Vec<u8>, String> {
    if s.len() % 2 != 0 {
        return Err("odd hex".into());
    }
    (0..s.len() / 2)
        .map(|i| u8::from_str_radix(&s[2 * i..2 * i + 2], 16).map_err(|e| e.to_string()))
        .collect()
}

pub fn gen(n: usize, tag: u64) -> Vec<u8> {
    (0..n as u64)
        .map(|i| ((i * 131 + i / 251 + tag) % 256) as u8)
        .collect()
}

fn data_arg(v: &Value) -> Result<Vec<u8>, String> {
    if let Some(g) = v.get("gen") {
        let n = g[0].as_u64().ok_or("gen n")? as usize;
        let tag = g[1].as_u64().ok_or("gen tag")?;
        let off = g.get(2).and_then(|x| x.as_u64()).unwrap_or(0) as usize;
        let len = g.get(3).and_then(|x| x.as_u64()).map(|x| x as usize);
        let all = gen(n, tag);
        return Ok(match len {
            Some(l) => all[off..off + l].to_vec(),
            None => all[off..].to_vec(),
        });
    }
    if let Some(h) = v.get("hex").and_then(|x| x.as_str()) {
        return unhex(h);
    }
    if let Some(s) = v.get("utf8").and_then(|x| x.as_str()) {
        return Ok(s.as_bytes().to_vec());
    }
    Err(format!("bad data spec {v}"))
}

fn data_reply(b: &[u8]) -> Value {
    let mut h = Sha256::new();
    h.update(b);
    let mut m = Map::new();
    m.insert("len".into(), json!(b.len()));
    m.insert("sha256".into(), json!(hexs(&h.finalize())));
    if b.len() <= 256 {
        m.insert("hex".into(), json!(hexs(b)));
    }
    Value::Object(m)
}

fn algo_arg(v: &Value) -> Result<Algorithm, String> {
    match v.as_str().ok_or("algo not a string")? {
        "sha512" => Ok(Algorithm::Sha512),
        "sha384" => Ok(Algorithm::Sha384),
        "sha256" => Ok(Algorithm::Sha256),
        "sha1" => Ok(Algorithm::Sha1),
        "xxh3" => Ok(Algorithm::Xxh3),
        o => Err(format!("unknown algorithm {o}")),
    }
}

fn sri_arg(v: &Value) -> Result<Integrity, String> {
    v.as_str()
        .ok_or("sri not a string")?
        .parse::<Integrity>()
        .map_err(|e| format!("sri parse: {e}"))
}

fn s<'a>(req: &'a Value, k: &str) -> Result<&'a str, String> {
    req.get(k)
        .and_then(|x| x.as_str())
        .ok_or_else(|| format!("missing string arg {k}"))
}

fn p(req: &Value, k: &str) -> Result<PathBuf, String> {
    Ok(PathBuf::from(s(req, k)?))
}

fn opts_arg(v: Option<&Value>) -> Result<WriteOpts, String> {
    let mut o = WriteOpts::new();
    let v = match v {
        Some(v) if v.is_object() => v,
        _ => return Ok(o),
    };
    if let Some(a) = v.get("algorithm") {
        o = o.algorithm(algo_arg(a)?);
    }
    if let Some(n) = v.get("size") {
        o = o.size(n.as_u64().ok_or("size")? as usize);
    }
    if let Some(i) = v.get("integrity") {
        o = o.integrity(sri_arg(i)?);
    }
    if let Some(t) = v.get("time") {
        let t: u128 = match t {
            Value::String(st) => st.parse().map_err(|_| "time parse")?,
            other => other.as_u64().ok_or("time")? as u128,
        };
        o = o.time(t);
    }
    if let Some(m) = v.get("metadata") {
        o = o.metadata(m.clone());
    }
    if let Some(r) = v.get("raw_metadata") {
        o = o.raw_metadata(unhex(r.as_str().ok_or("raw_metadata")?)?);
    }
    Ok(o)
}

fn meta_json(m: &Metadata) -> Value {
    json!({
        "key": m.key,
        "integrity": m.integrity.to_string(),
        "time": m.time.to_string(),
        "size": m.size,
        "metadata": m.metadata,
        "raw_metadata": m.raw_metadata.as_ref().map(|r| hexs(r)),
    })
}

fn io_json(e: &std::io::Error) -> Value {
    json!({"io_kind": format!("{:?}", e.kind()), "os": e.raw_os_error(), "msg": e.to_string()})
}

fn err_json(e: &Error) -> Value {
    match e {
        Error::EntryNotFound(_, k) => json!({"variant": "EntryNotFound", "key": k}),
        Error::SizeMismatch(w, a) => json!({"variant": "SizeMismatch", "wanted": w, "actual": a}),
        Error::IoError(ioe, msg) => {
            let mut v = io_json(ioe);
            v["variant"] = json!("IoError");
            v["ctx"] = json!(msg);
            v
        }
        Error::SerdeError(se, msg) => {
            json!({"variant": "SerdeError", "msg": se.to_string(), "ctx": msg})
        }
        Error::IntegrityError(se) => {
            let d = format!("{se:?}");
            let kind = d.split(|c: char| !c.is_alphanumeric()).next().unwrap_or("").to_string();
            json!({"variant": "IntegrityError", "kind": kind})
        }
    }
}

type R = Result<Value, Value>; // Ok(value) | Err(error json)

fn ce<T>(r: cacache::Result<T>) -> Result<T, Value> {
    r.map_err(|e| err_json(&e))
}

fn ie<T>(r: std::io::Result<T>) -> Result<T, Value> {
    r.map_err(|e| {
        let mut v = io_json(&e);
        v["variant"] = json!("StdIo");
        v
    })
}

fn bad(msg: String) -> Value {
    json!({"variant": "BadRequest", "msg": msg})
}

macro_rules! a {
    ($e:expr) => {
        $e.map_err(bad)?
    };
}

// ------------------------------------------------------------------ sessions

enum Sess {
    SW(cacache::SyncWriter),
    SR(cacache::SyncReader),
    SL(cacache::SyncToLinker),
    #[cfg(any(feature = "astd", feature = "tok"))]
    AW(cacache::Writer),
    #[cfg(any(feature = "astd", feature = "tok"))]
    AR(cacache::Reader),
    #[cfg(any(feature = "astd", feature = "tok"))]
    AL(cacache::ToLinker),
}

struct Server {
    sess: HashMap<u64, Sess>,
    next: u64,
}

impl Server {
    fn new() -> Self {
        Server { sess: HashMap::new(), next: 1 }
    }

    fn put(&mut self, s: Sess) -> Value {
        let h = self.next;
        self.next += 1;
        self.sess.insert(h, s);
        json!({"h": h})
    }

    fn h(req: &Value) -> Result<u64, Value> {
        req.get("h").and_then(|x| x.as_u64()).ok_or_else(|| bad("missing h".into()))
    }

    fn take(&mut self, req: &Value) -> Result<Sess, Value> {
        let h = Self::h(req)?;
        self.sess.remove(&h).ok_or_else(|| bad(format!("no session {h}")))
    }

    fn get(&mut self, req: &Value) -> Result<&mut Sess, Value> {
        let h = Self::h(req)?;
        self.sess.get_mut(&h).ok_or_else(|| bad(format!("no session {h}")))
    }

    fn call(&mut self, req: &Value) -> Value {
        PANICS.lock().unwrap().clear();
        let r = catch_unwind(AssertUnwindSafe(|| self.dispatch(req)));
        let mut out = match r {
            Ok(Ok(v)) => json!({"ok": v}),
            Ok(Err(e)) => json!({"err": e}),
            Err(p) => {
                let msg = if let Some(s) = p.downcast_ref::<&str>() {
                    s.to_string()
                } else if let Some(s) = p.downcast_ref::<String>() {
                    s.clone()
                } else {
                    "non-string panic".to_string()
                };
                json!({"panic": msg})
            }
        };
        let ps = PANICS.lock().unwrap().clone();
        if !ps.is_empty() {
            out["panics"] = json!(ps);
        }
        out
    }

    fn dispatch(&mut self, req: &Value) -> R {
        let op = a!(s(req, "op"));
        match op {
            "ping" => Ok(json!({"flavour": flavour(), "pid": std::process::id()})),
            "xxh3_ref" => {
                // digest computed by calling the xxhash-rust crate directly (no ssri, no cacache)
                let d = a!(data_arg(&req["data"]));
                Ok(json!(hexs(&xxhash_rust::xxh3::xxh3_128(&d).to_be_bytes())))
            }
            "chdir" => {
                ie(std::env::set_current_dir(a!(p(req, "dir"))))?;
                Ok(Value::Null)
            }
            // ------------------------------------------------ sync one-shots
            "write_sync" => {
                let sri = ce(cacache::write_sync(a!(p(req, "cache")), a!(s(req, "key")), a!(data_arg(&req["data"]))))?;
                Ok(json!(sri.to_string()))
            }
            "write_sync_with_algo" => {
                let sri = ce(cacache::write_sync_with_algo(
                    a!(algo_arg(&req["algo"])),
                    a!(p(req, "cache")),
                    a!(s(req, "key")),
                    a!(data_arg(&req["data"])),
                ))?;
                Ok(json!(sri.to_string()))
            }
            "write_hash_sync" => {
                let sri = ce(cacache::write_hash_sync(a!(p(req, "cache")), a!(data_arg(&req["data"]))))?;
                Ok(json!(sri.to_string()))
            }
            "write_hash_sync_with_algo" => {
                let sri = ce(cacache::write_hash_sync_with_algo(
                    a!(algo_arg(&req["algo"])),
                    a!(p(req, "cache")),
                    a!(data_arg(&req["data"])),
                ))?;
                Ok(json!(sri.to_string()))
            }
            "read_sync" => {
                let d = ce(cacache::read_sync(a!(p(req, "cache")), a!(s(req, "key"))))?;
                Ok(data_reply(&d))
            }
            "read_hash_sync" => {
                let d = ce(cacache::read_hash_sync(a!(p(req, "cache")), &a!(sri_arg(&req["sri"]))))?;
                Ok(data_reply(&d))
            }
            "copy_sync" => Ok(json!(ce(cacache::copy_sync(a!(p(req, "cache")), a!(s(req, "key")), a!(p(req, "to"))))?)),
            "copy_unchecked_sync" => {
                Ok(json!(ce(cacache::copy_unchecked_sync(a!(p(req, "cache")), a!(s(req, "key")), a!(p(req, "to"))))?))
            }
            "copy_hash_sync" => {
                Ok(json!(ce(cacache::copy_hash_sync(a!(p(req, "cache")), &a!(sri_arg(&req["sri"])), a!(p(req, "to"))))?))
            }
            "copy_hash_unchecked_sync" => Ok(json!(ce(cacache::copy_hash_unchecked_sync(
                a!(p(req, "cache")),
                &a!(sri_arg(&req["sri"])),
                a!(p(req, "to"))
            ))?)),
            "reflink_sync" => {
                ce(cacache::reflink_sync(a!(p(req, "cache")), a!(s(req, "key")), a!(p(req, "to"))))?;
                Ok(Value::Null)
            }
            "reflink_unchecked_sync" => {
                ce(cacache::reflink_unchecked_sync(a!(p(req, "cache")), a!(s(req, "key")), a!(p(req, "to"))))?;
                Ok(Value::Null)
            }
            "reflink_hash_sync" => {
                ce(cacache::reflink_hash_sync(a!(p(req, "cache")), &a!(sri_arg(&req["sri"])), a!(p(req, "to"))))?;
                Ok(Value::Null)
            }
            "reflink_hash_unchecked_sync" => {
                ce(cacache::reflink_hash_unchecked_sync(a!(p(req, "cache")), &a!(sri_arg(&req["sri"])), a!(p(req, "to"))))?;
                Ok(Value::Null)
            }
            "hard_link_sync" => {
                ce(cacache::hard_link_sync(a!(p(req, "cache")), a!(s(req, "key")), a!(p(req, "to"))))?;
                Ok(Value::Null)
            }
            "hard_link_unchecked_sync" => {
                ce(cacache::hard_link_unchecked_sync(a!(p(req, "cache")), a!(s(req, "key")), a!(p(req, "to"))))?;
                Ok(Value::Null)
            }
            "hard_link_hash_sync" => {
                ce(cacache::hard_link_hash_sync(a!(p(req, "cache")), &a!(sri_arg(&req["sri"])), a!(p(req, "to"))))?;
                Ok(Value::Null)
            }
            "hard_link_hash_unchecked_sync" => {
                ce(cacache::hard_link_hash_unchecked_sync(a!(p(req, "cache")), &a!(sri_arg(&req["sri"])), a!(p(req, "to"))))?;
                Ok(Value::Null)
            }
            "metadata_sync" => {
                let m = ce(cacache::metadata_sync(a!(p(req, "cache")), a!(s(req, "key"))))?;
                Ok(m.as_ref().map(meta_json).unwrap_or(Value::Null))
            }
            "exists_sync" => Ok(json!(cacache::exists_sync(a!(p(req, "cache")), &a!(sri_arg(&req["sri"]))))),
            "remove_sync" => {
                ce(cacache::remove_sync(a!(p(req, "cache")), a!(s(req, "key"))))?;
                Ok(Value::Null)
            }
            "remove_hash_sync" => {
                ce(cacache::remove_hash_sync(a!(p(req, "cache")), &a!(sri_arg(&req["sri"]))))?;
                Ok(Value::Null)
            }
            "clear_sync" => {
                ce(cacache::clear_sync(a!(p(req, "cache"))))?;
                Ok(Value::Null)
            }
            "remove_opts_sync" => {
                let fully = req.get("fully").and_then(|x| x.as_bool()).unwrap_or(false);
                ce(cacache::RemoveOpts::new().remove_fully(fully).remove_sync(a!(p(req, "cache")), a!(s(req, "key"))))?;
                Ok(Value::Null)
            }
            "list_sync" => {
                let items: Vec<Value> = cacache::list_sync(a!(p(req, "cache")))
                    .map(|r| match r {
                        Ok(m) => json!({"ok": meta_json(&m)}),
                        Err(e) => json!({"err": err_json(&e)}),
                    })
                    .collect();
                Ok(Value::Array(items))
            }
            "index_ls" => {
                let items: Vec<Value> = cacache::index::ls(&a!(p(req, "cache")))
                    .map(|r| match r {
                        Ok(m) => json!({"ok": meta_json(&m)}),
                        Err(e) => json!({"err": err_json(&e)}),
                    })
                    .collect();
                Ok(Value::Array(items))
            }
            "index_insert" => {
                let sri = ce(cacache::index::insert(&a!(p(req, "cache")), a!(s(req, "key")), a!(opts_arg(req.get("opts")))))?;
                Ok(json!(sri.to_string()))
            }
            "index_find" => {
                let m = ce(cacache::index::find(&a!(p(req, "cache")), a!(s(req, "key"))))?;
                Ok(m.as_ref().map(meta_json).unwrap_or(Value::Null))
            }
            "index_delete" => {
                ce(cacache::index::delete(&a!(p(req, "cache")), a!(s(req, "key"))))?;
                Ok(Value::Null)
            }
            "link_to_sync" => {
                let sri = ce(cacache::link_to_sync(a!(p(req, "cache")), a!(s(req, "key")), a!(p(req, "target"))))?;
                Ok(json!(sri.to_string()))
            }
            "link_to_hash_sync" => {
                let sri = ce(cacache::link_to_hash_sync(a!(p(req, "cache")), a!(p(req, "target"))))?;
                Ok(json!(sri.to_string()))
            }
            // ------------------------------------------------ sync sessions
            "sw_open" => {
                let o = a!(opts_arg(req.get("opts")));
                let w = match req.get("key").and_then(|k| k.as_str()) {
                    Some(k) => ce(o.open_sync(a!(p(req, "cache")), k))?,
                    None => ce(o.open_hash_sync(a!(p(req, "cache"))))?,
                };
                Ok(self.put(Sess::SW(w)))
            }
            "sw_create" => {
                let w = ce(cacache::SyncWriter::create(a!(p(req, "cache")), a!(s(req, "key"))))?;
                Ok(self.put(Sess::SW(w)))
            }
            "sw_create_with_algo" => {
                let w = ce(cacache::SyncWriter::create_with_algo(a!(algo_arg(&req["algo"])), a!(p(req, "cache")), a!(s(req, "key"))))?;
                Ok(self.put(Sess::SW(w)))
            }
            "sr_open" => {
                let r = ce(cacache::SyncReader::open(a!(p(req, "cache")), a!(s(req, "key"))))?;
                Ok(self.put(Sess::SR(r)))
            }
            "sr_open_hash" => {
                let r = ce(cacache::SyncReader::open_hash(a!(p(req, "cache")), a!(sri_arg(&req["sri"]))))?;
                Ok(self.put(Sess::SR(r)))
            }
            "sl_open" => {
                let cache = a!(p(req, "cache"));
                let target = a!(p(req, "target"));
                let key = req.get("key").and_then(|k| k.as_str());
                let l = match (req.get("opts"), key) {
                    (Some(o), Some(k)) if o.is_object() => ce(a!(opts_arg(Some(o))).link_to_sync(cache, k, target))?,
                    (Some(o), None) if o.is_object() => ce(a!(opts_arg(Some(o))).link_to_hash_sync(cache, target))?,
                    (_, Some(k)) => ce(cacache::SyncToLinker::open(cache, k, target))?,
                    (_, None) => ce(cacache::SyncToLinker::open_hash(cache, target))?,
                };
                Ok(self.put(Sess::SL(l)))
            }
            // ------------------------------------------------ generic session ops
            "w_write" => {
                let d = a!(data_arg(&req["data"]));
                match self.get(req)? {
                    Sess::SW(w) => Ok(json!(ie(w.write(&d))?)),
                    #[cfg(any(feature = "astd", feature = "tok"))]
                    Sess::AW(w) => Ok(json!(ie(ab(w.write(&d)))?)),
                    _ => Err(bad("not a writer".into())),
                }
            }
            "w_write_all" => {
                let d = a!(data_arg(&req["data"]));
                match self.get(req)? {
                    Sess::SW(w) => {
                        ie(w.write_all(&d))?;
                        Ok(Value::Null)
                    }
                    #[cfg(any(feature = "astd", feature = "tok"))]
                    Sess::AW(w) => {
                        ie(ab(w.write_all(&d)))?;
                        Ok(Value::Null)
                    }
                    _ => Err(bad("not a writer".into())),
                }
            }
            // the data supplied through the vectored entry point of the Write / AsyncWrite traits, in `parts` slices,
            // repeated until everything has been accepted (what write_all_vectored does)
            "w_write_all_vectored" => {
                let d = a!(data_arg(&req["data"]));
                let parts = req.get("parts").and_then(|x| x.as_u64()).unwrap_or(2).max(1) as usize;
                let mut off = 0usize;
                let mut calls = 0u64;
                while off < d.len() || calls == 0 {
                    let rest = &d[off..];
                    let step = (rest.len() + parts - 1) / parts.max(1);
                    let slices: Vec<std::io::IoSlice> = if step == 0 { vec![std::io::IoSlice::new(rest)] } else { rest.chunks(step).map(std::io::IoSlice::new).collect() };
                    let n = match self.get(req)? {
                        Sess::SW(w) => ie(w.write_vectored(&slices))?,
                        #[cfg(any(feature = "astd", feature = "tok"))]
                        Sess::AW(w) => ie(ab(w.write_vectored(&slices)))?,
                        _ => return Err(bad("not a writer".into())),
                    };
                    calls += 1;
                    if n == 0 && !rest.is_empty() {
                        return Err(bad("write_vectored accepted nothing".into()));
                    }
                    off += n;
                }
                Ok(json!(calls))
            }
            // write_all built from single write() calls by a caller that RETRIES a failed write (up to three times): the
            // unaccepted bytes are offered again, as after EINTR / ENOSPC-then-space / a quota that was lifted
            "w_write_all_retrying" => {
                let d = a!(data_arg(&req["data"]));
                let mut off = 0usize;
                let mut errors = 0u64;
                let mut calls = 0u64;
                while off < d.len() || calls == 0 {
                    let r = match self.get(req)? {
                        Sess::SW(w) => w.write(&d[off..]),
                        #[cfg(any(feature = "astd", feature = "tok"))]
                        Sess::AW(w) => ab(w.write(&d[off..])),
                        _ => return Err(bad("not a writer".into())),
                    };
                    calls += 1;
                    match r {
                        Ok(0) if off < d.len() => return Err(bad("write accepted nothing".into())),
                        Ok(n) => off += n,
                        Err(e) => {
                            errors += 1;
                            if errors > 3 {
                                ie::<()>(Err(e))?;
                            }
                        }
                    }
                }
                Ok(json!({"calls": calls, "errors": errors}))
            }
            "w_flush" => match self.get(req)? {
                Sess::SW(w) => {
                    ie(w.flush())?;
                    Ok(Value::Null)
                }
                #[cfg(any(feature = "astd", feature = "tok"))]
                Sess::AW(w) => {
                    ie(ab(w.flush()))?;
                    Ok(Value::Null)
                }
                _ => Err(bad("not a writer".into())),
            },
            #[cfg(any(feature = "astd", feature = "tok"))]
            "w_close" => match self.get(req)? {
                Sess::AW(w) => {
                    #[cfg(feature = "astd")]
                    ie(ab(w.close()))?;
                    #[cfg(feature = "tok")]
                    ie(ab(w.shutdown()))?;
                    Ok(Value::Null)
                }
                _ => Err(bad("not an async writer".into())),
            },
            "w_commit" => match self.take(req)? {
                Sess::SW(w) => Ok(json!(ce(w.commit())?.to_string())),
                #[cfg(any(feature = "astd", feature = "tok"))]
                Sess::AW(w) => Ok(json!(ce(ab(w.commit()))?.to_string())),
                _ => Err(bad("not a writer".into())),
            },
            "w_drop" | "r_drop" | "l_drop" => {
                let x = self.take(req)?;
                #[cfg(feature = "tok")]
                {
                    // drop inside the runtime context, as user code inside #[tokio::main] would
                    ab(async move { drop(x) });
                }
                #[cfg(not(feature = "tok"))]
                drop(x);
                Ok(Value::Null)
            }
            #[cfg(any(feature = "astd", feature = "tok"))]
            "w_poll_write_drop" => {
                // poll_write exactly once (spawns the blocking task), then drop the writer while the
                // task may still be in flight
                let d = a!(data_arg(&req["data"]));
                let delay = req.get("delay_ms").and_then(|x| x.as_u64()).unwrap_or(0);
                let linger = req.get("linger_ms").and_then(|x| x.as_u64()).unwrap_or(0);
                match self.take(req)? {
                    Sess::AW(mut w) => {
                        let polled = ab(async {
                            let waker = futures::task::noop_waker();
                            let mut cx = std::task::Context::from_waker(&waker);
                            #[cfg(feature = "astd")]
                            let r = futures::io::AsyncWrite::poll_write(std::pin::Pin::new(&mut w), &mut cx, &d);
                            #[cfg(feature = "tok")]
                            let r = tokio::io::AsyncWrite::poll_write(std::pin::Pin::new(&mut w), &mut cx, &d);
                            let pending = r.is_pending();
                            marker("M1");
                            if delay > 0 {
                                // let the blocking task run to completion first: its result (and the temp file)
                                // is then parked in the join handle and dropped by this thread
                                std::thread::sleep(std::time::Duration::from_millis(delay));
                            }
                            drop(w);
                            marker("M2");
                            pending
                        });
                        if linger > 0 {
                            // wait (at most `linger` ms) until the writer's background work has finished, i.e. until
                            // the temp area is empty again; a fixed sleep would depend on machine load
                            let tmp = std::path::PathBuf::from(req.get("tmp_dir").and_then(|x| x.as_str()).unwrap_or("")).join("tmp");
                            let t0 = std::time::Instant::now();
                            loop {
                                let empty = match std::fs::read_dir(&tmp) {
                                    Ok(mut it) => it.next().is_none(),
                                    Err(_) => true,
                                };
                                if empty || t0.elapsed().as_millis() as u64 >= linger {
                                    break;
                                }
                                std::thread::sleep(std::time::Duration::from_millis(5));
                            }
                        }
                        Ok(json!({"pending": polled}))
                    }
                    _ => Err(bad("not an async writer".into())),
                }
            }
            "r_read" => {
                let n = req.get("n").and_then(|x| x.as_u64()).ok_or_else(|| bad("n".into()))? as usize;
                let mut buf = vec![0u8; n];
                let got = match self.get(req)? {
                    Sess::SR(r) => ie(r.read(&mut buf))?,
                    Sess::SL(r) => ie(r.read(&mut buf))?,
                    #[cfg(any(feature = "astd", feature = "tok"))]
                    Sess::AR(r) => ie(ab(r.read(&mut buf)))?,
                    #[cfg(any(feature = "astd", feature = "tok"))]
                    Sess::AL(r) => ie(ab(r.read(&mut buf)))?,
                    _ => return Err(bad("not a reader".into())),
                };
                Ok(data_reply(&buf[..got]))
            }
            "r_read_to_end" => {
                // "prefill": the caller's vector already holds that many bytes (read_to_end appends)
                let prefill = req.get("prefill").and_then(|x| x.as_u64()).unwrap_or(0) as usize;
                let mut buf = vec![b'#'; prefill];
                match self.get(req)? {
                    Sess::SR(r) => ie(r.read_to_end(&mut buf))?,
                    Sess::SL(r) => ie(r.read_to_end(&mut buf))?,
                    #[cfg(any(feature = "astd", feature = "tok"))]
                    Sess::AR(r) => ie(ab(r.read_to_end(&mut buf)))?,
                    #[cfg(any(feature = "astd", feature = "tok"))]
                    Sess::AL(r) => ie(ab(r.read_to_end(&mut buf)))?,
                    _ => return Err(bad("not a reader".into())),
                };
                Ok(data_reply(&buf[prefill..]))
            }
            "r_stream" => {
                // read to EOF with a buffer of n bytes per call, then check(); consumes the handle
                let n = req.get("n").and_then(|x| x.as_u64()).ok_or_else(|| bad("n".into()))? as usize;
                let mut buf = vec![0u8; n];
                let mut all = Vec::new();
                let mut calls = 0u64;
                match self.take(req)? {
                    Sess::SR(mut r) => {
                        loop {
                            let got = ie(r.read(&mut buf))?;
                            calls += 1;
                            if got == 0 {
                                break;
                            }
                            all.extend_from_slice(&buf[..got]);
                        }
                        let algo = ce(r.check())?;
                        Ok(json!({"data": data_reply(&all), "algo": algo.to_string(), "calls": calls}))
                    }
                    #[cfg(any(feature = "astd", feature = "tok"))]
                    Sess::AR(mut r) => {
                        loop {
                            let got = ie(ab(r.read(&mut buf)))?;
                            calls += 1;
                            if got == 0 {
                                break;
                            }
                            all.extend_from_slice(&buf[..got]);
                        }
                        let algo = ce(r.check())?;
                        Ok(json!({"data": data_reply(&all), "algo": algo.to_string(), "calls": calls}))
                    }
                    _ => Err(bad("not a checked reader".into())),
                }
            }
            "r_check" => match self.take(req)? {
                Sess::SR(r) => Ok(json!(ce(r.check())?.to_string())),
                #[cfg(any(feature = "astd", feature = "tok"))]
                Sess::AR(r) => Ok(json!(ce(r.check())?.to_string())),
                _ => Err(bad("not a reader".into())),
            },
            "l_commit" => match self.take(req)? {
                Sess::SL(l) => Ok(json!(ce(l.commit())?.to_string())),
                #[cfg(any(feature = "astd", feature = "tok"))]
                Sess::AL(l) => Ok(json!(ce(ab(l.commit()))?.to_string())),
                _ => Err(bad("not a linker".into())),
            },
            _ => self.dispatch_async(op, req),
        }
    }

    #[cfg(not(any(feature = "astd", feature = "tok")))]
    fn dispatch_async(&mut self, op: &str, _req: &Value) -> R {
        Err(bad(format!("unknown op {op}")))
    }

    #[cfg(any(feature = "astd", feature = "tok"))]
    fn dispatch_async(&mut self, op: &str, req: &Value) -> R {
        match op {
            "write" => {
                let sri = ce(ab(cacache::write(a!(p(req, "cache")), a!(s(req, "key")), a!(data_arg(&req["data"])))))?;
                Ok(json!(sri.to_string()))
            }
            "write_with_algo" => {
                let sri = ce(ab(cacache::write_with_algo(
                    a!(algo_arg(&req["algo"])),
                    a!(p(req, "cache")),
                    a!(s(req, "key")),
                    a!(data_arg(&req["data"])),
                )))?;
                Ok(json!(sri.to_string()))
            }
            "write_hash" => {
                let sri = ce(ab(cacache::write_hash(a!(p(req, "cache")), a!(data_arg(&req["data"])))))?;
                Ok(json!(sri.to_string()))
            }
            "write_hash_with_algo" => {
                let sri = ce(ab(cacache::write_hash_with_algo(
                    a!(algo_arg(&req["algo"])),
                    a!(p(req, "cache")),
                    a!(data_arg(&req["data"])),
                )))?;
                Ok(json!(sri.to_string()))
            }
            "read" => {
                let d = ce(ab(cacache::read(a!(p(req, "cache")), a!(s(req, "key")))))?;
                Ok(data_reply(&d))
            }
            "read_hash" => {
                let sri = a!(sri_arg(&req["sri"]));
                let d = ce(ab(cacache::read_hash(a!(p(req, "cache")), &sri)))?;
                Ok(data_reply(&d))
            }
            "copy" => Ok(json!(ce(ab(cacache::copy(a!(p(req, "cache")), a!(s(req, "key")), a!(p(req, "to")))))?)),
            "copy_unchecked" => {
                Ok(json!(ce(ab(cacache::copy_unchecked(a!(p(req, "cache")), a!(s(req, "key")), a!(p(req, "to")))))?))
            }
            "copy_hash" => {
                let sri = a!(sri_arg(&req["sri"]));
                Ok(json!(ce(ab(cacache::copy_hash(a!(p(req, "cache")), &sri, a!(p(req, "to")))))?))
            }
            "copy_hash_unchecked" => {
                let sri = a!(sri_arg(&req["sri"]));
                Ok(json!(ce(ab(cacache::copy_hash_unchecked(a!(p(req, "cache")), &sri, a!(p(req, "to")))))?))
            }
            "reflink" => {
                ce(ab(cacache::reflink(a!(p(req, "cache")), a!(s(req, "key")), a!(p(req, "to")))))?;
                Ok(Value::Null)
            }
            "reflink_unchecked" => {
                ce(ab(cacache::reflink_unchecked(a!(p(req, "cache")), a!(s(req, "key")), a!(p(req, "to")))))?;
                Ok(Value::Null)
            }
            "reflink_hash" => {
                let sri = a!(sri_arg(&req["sri"]));
                ce(ab(cacache::reflink_hash(a!(p(req, "cache")), &sri, a!(p(req, "to")))))?;
                Ok(Value::Null)
            }
            "hard_link" => {
                ce(ab(cacache::hard_link(a!(p(req, "cache")), a!(s(req, "key")), a!(p(req, "to")))))?;
                Ok(Value::Null)
            }
            "metadata" => {
                let m = ce(ab(cacache::metadata(a!(p(req, "cache")), a!(s(req, "key")))))?;
                Ok(m.as_ref().map(meta_json).unwrap_or(Value::Null))
            }
            "exists" => {
                let sri = a!(sri_arg(&req["sri"]));
                Ok(json!(ab(cacache::exists(a!(p(req, "cache")), &sri))))
            }
            "remove" => {
                ce(ab(cacache::remove(a!(p(req, "cache")), a!(s(req, "key")))))?;
                Ok(Value::Null)
            }
            "remove_hash" => {
                let sri = a!(sri_arg(&req["sri"]));
                ce(ab(cacache::remove_hash(a!(p(req, "cache")), &sri)))?;
                Ok(Value::Null)
            }
            "clear" => {
                ce(ab(cacache::clear(a!(p(req, "cache")))))?;
                Ok(Value::Null)
            }
            "remove_opts" => {
                let fully = req.get("fully").and_then(|x| x.as_bool()).unwrap_or(false);
                ce(ab(cacache::RemoveOpts::new().remove_fully(fully).remove(a!(p(req, "cache")), a!(s(req, "key")))))?;
                Ok(Value::Null)
            }
            "index_insert_async" => {
                let cache = a!(p(req, "cache"));
                let sri = ce(ab(cacache::index::insert_async(&cache, a!(s(req, "key")), a!(opts_arg(req.get("opts"))))))?;
                Ok(json!(sri.to_string()))
            }
            "index_find_async" => {
                let cache = a!(p(req, "cache"));
                let m = ce(ab(cacache::index::find_async(&cache, a!(s(req, "key")))))?;
                Ok(m.as_ref().map(meta_json).unwrap_or(Value::Null))
            }
            "index_delete_async" => {
                let cache = a!(p(req, "cache"));
                ce(ab(cacache::index::delete_async(&cache, a!(s(req, "key")))))?;
                Ok(Value::Null)
            }
            "link_to" => {
                let sri = ce(ab(cacache::link_to(a!(p(req, "cache")), a!(s(req, "key")), a!(p(req, "target")))))?;
                Ok(json!(sri.to_string()))
            }
            "link_to_hash" => {
                let sri = ce(ab(cacache::link_to_hash(a!(p(req, "cache")), a!(p(req, "target")))))?;
                Ok(json!(sri.to_string()))
            }
            "aw_open" => {
                let o = a!(opts_arg(req.get("opts")));
                let w = match req.get("key").and_then(|k| k.as_str()) {
                    Some(k) => ce(ab(o.open(a!(p(req, "cache")), k)))?,
                    None => ce(ab(o.open_hash(a!(p(req, "cache")))))?,
                };
                Ok(self.put(Sess::AW(w)))
            }
            "aw_create" => {
                let w = ce(ab(cacache::Writer::create(a!(p(req, "cache")), a!(s(req, "key")))))?;
                Ok(self.put(Sess::AW(w)))
            }
            "aw_create_with_algo" => {
                let w = ce(ab(cacache::Writer::create_with_algo(a!(algo_arg(&req["algo"])), a!(p(req, "cache")), a!(s(req, "key")))))?;
                Ok(self.put(Sess::AW(w)))
            }
            "ar_open" => {
                let r = ce(ab(cacache::Reader::open(a!(p(req, "cache")), a!(s(req, "key")))))?;
                Ok(self.put(Sess::AR(r)))
            }
            "ar_open_hash" => {
                let r = ce(ab(cacache::Reader::open_hash(a!(p(req, "cache")), a!(sri_arg(&req["sri"])))))?;
                Ok(self.put(Sess::AR(r)))
            }
            "al_open" => {
                let cache = a!(p(req, "cache"));
                let target = a!(p(req, "target"));
                let key = req.get("key").and_then(|k| k.as_str());
                let l = match (req.get("opts"), key) {
                    (Some(o), Some(k)) if o.is_object() => ce(ab(a!(opts_arg(Some(o))).link_to(cache, k, target)))?,
                    (Some(o), None) if o.is_object() => ce(ab(a!(opts_arg(Some(o))).link_to_hash(cache, target)))?,
                    (_, Some(k)) => ce(ab(cacache::ToLinker::open(cache, k, target)))?,
                    (_, None) => ce(ab(cacache::ToLinker::open_hash(cache, target)))?,
                };
                Ok(self.put(Sess::AL(l)))
            }
            _ => Err(bad(format!("unknown op {op}"))),
        }
    }
}

// ------------------------------------------------------------------ markers (for fsx)

fn marker(tag: &str) {
    let m = format!("FSX:{tag}");
    unsafe {
        libc::write(-1, m.as_ptr() as *const libc::c_void, m.len());
    }
}

fn run_program(srv: &mut Server, tag: &str, prog: &[Value]) -> Vec<Value> {
    // Requests may refer to the handle returned by an earlier request of the same program with
    // {"h": {"ref": i}}.
    let mut out: Vec<Value> = Vec::new();
    marker(&format!("begin:{tag}"));
    for req in prog {
        let mut req = req.clone();
        if let Some(r) = req.get("h").and_then(|h| h.get("ref")).and_then(|x| x.as_u64()) {
            let h = out.get(r as usize).and_then(|o| o.get("ok")).and_then(|o| o.get("h")).cloned().unwrap_or(Value::Null);
            req["h"] = h;
        }
        let rep = srv.call(&req);
        let failed = rep.get("ok").is_none();
        out.push(rep);
        if failed {
            // a caller whose call failed does not carry on with the session
            break;
        }
    }
    marker(&format!("end:{tag}"));
    out
}

fn main() {
    std::panic::set_hook(Box::new(|info| {
        let loc = info.location().map(|l| format!("{}:{}", l.file(), l.line())).unwrap_or_default();
        let msg = if let Some(s) = info.payload().downcast_ref::<&str>() {
            s.to_string()
        } else if let Some(s) = info.payload().downcast_ref::<String>() {
            s.clone()
        } else {
            "?".into()
        };
        if let Ok(mut g) = PANICS.lock() {
            g.push(format!("{msg} @ {loc}"));
        }
    }));
    let args: Vec<String> = std::env::args().collect();
    let mode = args.get(1).map(|s| s.as_str()).unwrap_or("serve");
    match mode {
        "serve" => {
            let stdin = std::io::stdin();
            let stdout = std::io::stdout();
            let mut srv = Server::new();
            for line in stdin.lock().lines() {
                let line = match line {
                    Ok(l) => l,
                    Err(_) => break,
                };
                if line.trim().is_empty() {
                    continue;
                }
                let rep = match serde_json::from_str::<Value>(&line) {
                    Ok(req) => {
                        if req.get("op").and_then(|o| o.as_str()) == Some("exit") {
                            break;
                        }
                        srv.call(&req)
                    }
                    Err(e) => json!({"err": bad(format!("json: {e}"))}),
                };
                let mut o = stdout.lock();
                let _ = writeln!(o, "{}", rep);
                let _ = o.flush();
            }
        }
        "actor" => {
            let tag = args[2].clone();
            let prog: Vec<Value> = serde_json::from_str(&read_arg(&args[3])).expect("program json");
            if let Some(d) = args.get(4) {
                std::env::set_current_dir(d).expect("chdir");
            }
            let mut srv = Server::new();
            let out = run_program(&mut srv, &tag, &prog);
            // keep sessions alive until after the end marker, then drop them
            drop(srv);
            let stdout = std::io::stdout();
            let mut o = stdout.lock();
            for r in out {
                let _ = writeln!(o, "{}", r);
            }
            let _ = o.flush();
        }
        "threads" => {
            let progs: Vec<Vec<Value>> = serde_json::from_str(&read_arg(&args[2])).expect("program json");
            let n = progs.len();
            let barrier = std::sync::Arc::new(std::sync::Barrier::new(n));
            let hs: Vec<_> = progs
                .into_iter()
                .enumerate()
                .map(|(i, prog)| {
                    let b = barrier.clone();
                    std::thread::spawn(move || {
                        b.wait();
                        let mut srv = Server::new();
                        // PANICS is shared: the per-call clear in Server::call could hide a panic of the
                        // other thread, so thread mode reports catch_unwind results only.
                        run_program(&mut srv, &format!("{i}"), &prog)
                    })
                })
                .collect();
            let outs: Vec<Value> = hs
                .into_iter()
                .map(|h| match h.join() {
                    Ok(v) => Value::Array(v),
                    Err(_) => json!([{"panic": "thread panicked outside a call"}]),
                })
                .collect();
            println!("{}", Value::Array(outs));
        }
        _ => {
            eprintln!("usage: opserver serve | actor <tag> <prog.json|@file> [cwd] | threads <progs.json|@file>");
            std::process::exit(2);
        }
    }
}

fn read_arg(a: &str) -> String {
    if let Some(path) = a.strip_prefix('@') {
        std::fs::read_to_string(Path::new(path)).expect("read program file")
    } else {
        a.to_string()
    }
}
