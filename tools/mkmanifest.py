#!/usr/bin/env python3
"""Regenerates /verif/MANIFEST.json from the table below (keeps it valid at all times)."""
import json
import os

HERE = os.path.dirname(os.path.dirname(os.path.abspath(__file__)))
ALL = ["C%02d" % i for i in range(1, 21)]

# property -> (category, technique, level text, level note, design ref, engine)
CHECKS = {}


def add(pid, category, technique, text, note, ref, engine):
    CHECKS[pid] = dict(category=category, technique=technique, text=text, note=note, ref=ref, engine=engine)


try:
    from manifest_table import fill  # noqa
except ImportError:
    import sys
    sys.path.insert(0, os.path.dirname(os.path.abspath(__file__)))
    from manifest_table import fill
fill(add)

checks = []
for pid in ALL:
    if pid not in CHECKS:
        continue
    c = CHECKS[pid]
    checks.append({
        "property_id": pid,
        "quick_cmd": "./check %s quick" % pid,
        "thorough_cmd": "./check %s thorough" % pid,
        "evidence_file": "/verif/evidence/%s.json" % pid,
        "replay_cmd_template": "./check %s --replay {path}" % pid,
        "engine": c["engine"],
        "level_claimed": {"category": c["category"], "text": c["text"], "design_ref": c["ref"]},
        "level_note": c["note"],
        "technique": c["technique"],
    })

na = [{"property_id": p, "reason": "check not built yet in this session; planned per DESIGN.md section 4 (no claim is made until it exists)"}
      for p in ALL if p not in CHECKS]

m = {
    "version": 1,
    "setup_cmd": "./check --build",
    "hooks": {
        "guard": "cacache_verif",
        "enable": "none needed: both seams (public API, system-call boundary) are outside the source; the guard name is reserved and unused",
        "baseline_off_cmd": "cd /repo && cargo test --workspace --no-fail-fast --offline",
        "source_commits": [],
        "add_only": True,
    },
    "engines": [
        {"name": "seqx", "path": "/verif/vlib", "serves_properties": sorted(p for p, c in CHECKS.items() if "seqx" in c["engine"]),
         "kind_free_text": "explicit-state / bounded-exhaustive exploration of on-disk cache states through the real public API (opserver, 3 flavour builds) with a dictionary model and an independent format codec as oracles"},
        {"name": "fsx", "path": "/verif/engine/fsx", "serves_properties": sorted(p for p, c in CHECKS.items() if "fsx" in c["engine"]),
         "kind_free_text": "ptrace controller: real library processes stopped at every file-system system call; preemption-bounded schedule enumeration, crash-point and torn-write enumeration, errno injection, short read/write answers, effect monitoring"},
    ],
    "checks": checks,
    "not_applicable": na,
    "notes": "All checks rebuild the harness from /repo's working tree (incremental cargo builds under /verif/target). Exit 0 held / 1 violation / 2 machinery problem. Known findings: /verif/known_findings.jsonl.",
}
with open(os.path.join(HERE, "MANIFEST.json"), "w") as fh:
    json.dump(m, fh, indent=1)
print("MANIFEST.json: %d checks, %d not_applicable" % (len(checks), len(na)))
