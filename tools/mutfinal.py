#!/usr/bin/env python3
"""tools/mutfinal.py: settle the two passes of the mutation campaign (seeded/mutation-campaign/*.jsonl) into one verdict per
mutant of the CURRENT tree and print a markdown summary. A pass-1 record counts only if it is final whatever the later
changes were: does not build, killed by the repository's suite, or caught by a check for a reason other than the
genuine defect that eeaac8e repaired (every mutant of the old tree 'failed' C13 for that reason once C13 looked there)."""
import collections
import glob
import json
import os
import sys

sys.path.insert(0, os.path.dirname(os.path.abspath(__file__)))
import mutcamp  # noqa: E402

D = os.path.join(os.path.dirname(os.path.dirname(os.path.abspath(__file__))), "seeded", "mutation-campaign")
ms = {m["idx"]: m for m in mutcamp.mutants()}
p1, p2 = {}, {}
for p in glob.glob(os.path.join(D, "pass1-*.jsonl")):
    for l in open(p):
        r = json.loads(l)
        p1[(r["file"], r["op"], r["old"], r["new"])] = r
for p in glob.glob(os.path.join(D, "pass2-*.jsonl")):
    for l in open(p):
        r = json.loads(l)
        p2[r["idx"]] = r
final = {}
for idx, m in ms.items():
    if idx in p2:
        final[idx] = p2[idx]
        continue
    r = p1.get((m["file"], m["op"], m["old"].strip(), m["new"].strip()))
    if r is None:
        continue
    if r["verdict"] in ("does-not-build", "killed-by-repo-suite") or (r["verdict"] == "caught" and not any("writer_rejected_short" in s for s in r.get("signatures", []))):
        final[idx] = r
c = collections.Counter(r["verdict"] for r in final.values())
print("candidate mutants of the current tree: %d; settled: %d (not run for lack of time: %d)" % (len(ms), len(final), len(ms) - len(final)))
print("do not build: %d; killed by the repository's own suite: %d; reached the checks: %d, of which caught %d, survived %d" % (
    c["does-not-build"], c["killed-by-repo-suite"], c["caught"] + c["survived"], c["caught"], c["survived"]))
by = collections.Counter(r.get("caught_by") for r in final.values() if r["verdict"] == "caught")
print("first check to report (fixed order, so the cheap checks come first): " + ", ".join("%s %d" % kv for kv in sorted(by.items())))
print()
for idx, r in sorted(final.items()):
    if r["verdict"] == "survived":
        print("- #%d %s:%d %s: `%s` -> `%s`" % (idx, r["file"], r["line"], r["op"], r["old"][:80], r["new"][:80]))
