#!/bin/bash
# tools/trymut.sh <patchfile|-e 'sed expr' file> -- <check ids...>   apply to /repo, run quick checks, revert
set -u
if [ "$1" = "-e" ]; then sed -i "$2" /repo/$3; shift 3; else git -C /repo apply "$1" || { echo "patch does not apply"; exit 3; }; shift; fi
[ "$1" = "--" ] && shift
git -C /repo diff --stat | tail -1
for id in "$@"; do /verif/check $id quick 2>&1 | grep -E "^C[0-9]+ quick|signature|MACHINERY" | head -${TRYMUT_LINES:-6}; done
git -C /repo checkout -- . ; git -C /repo status --short | head -3; /verif/check --build
