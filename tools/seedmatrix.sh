#!/bin/bash
# tools/seedmatrix.sh <seedname> [checks...]   run quick checks against a seeded change in a scratch worktree
# (the worktree and its build output are removed afterwards). Output: /tmp/mut/seeds/<seed>/matrix.txt
name=$1; shift
sd=/tmp/mut/seeds/$name
wt=/tmp/mut/mx-$name
patch=$sd/patch.diff; [ -f $sd/patch.rebased.diff ] && patch=$sd/patch.rebased.diff
git -C /repo worktree remove --force $wt >/dev/null 2>&1
git -C /repo worktree add --detach $wt HEAD >/dev/null 2>&1 || { echo "worktree failed"; exit 1; }
cp /repo/Cargo.lock $wt/
if ! git -C $wt apply $patch 2>/dev/null; then echo "PATCH-DOES-NOT-APPLY" > $sd/matrix.txt; git -C /repo worktree remove --force $wt; exit 3; fi
export VERIF_OUT=/tmp/mut/mxout-$name VERIF_REPO=$wt VERIF_TARGET=/tmp/mut/mxtarget-$name VERIF_JOBS=${VERIF_JOBS:-8}
: > $sd/matrix.txt
for id in "$@"; do
  out=$(${VERIF_HOME:-/verif}/check $id quick 2>&1)
  rc=$?
  line=$(echo "$out" | grep -E "^$id quick" | tail -1)
  nsig=$(echo "$out" | grep -c "signature:")
  first=$(echo "$out" | grep "signature:" | head -2 | tr '\n' ';')
  echo "$id rc=$rc sigs=$nsig $line $first" >> $sd/matrix.txt
done
git -C /repo worktree remove --force $wt
rm -rf /tmp/mut/mxtarget-$name /tmp/mut/mxout-$name
