#!/usr/bin/env python3
"""tools/mutcamp.py — a mechanical mutation campaign, complementary to the hand/sub-agent seeds of DESIGN 12.

It is NOT part of any check: it measures the checks. Every mutant is a one-line syntactic change of /repo's
non-test source (comparison / boolean / arithmetic operator swaps, negated conditions, swallowed `?`, deleted
statements, flipped boolean literals). For each selected mutant, in a scratch worktree of /repo (never /repo itself):

  1. build the three opserver flavours against the mutated tree (does not build -> discarded),
  2. run the repository's own suite (`cargo test --offline --lib`); fails -> "killed by the repo's tests" (not interesting),
  3. run the quick tier of the 20 checks in a fixed order and stop at the first that reports a violation.

usage:  mutcamp.py list                      print all candidate mutants (index, file:line, operator)
        mutcamp.py run <out.jsonl> <worker> <nworkers> [stride] [only-file-substring]
The worktree and its build output live under $MUTCAMP_TMP (default /tmp/mutcamp) and are removed at the end.
"""
import json
import os
import re
import shutil
import subprocess
import sys
import time

REPO = "/repo"
VERIF = os.path.dirname(os.path.dirname(os.path.abspath(__file__)))
TMP = os.environ.get("MUTCAMP_TMP", "/tmp/mutcamp")
ORDER = ["C16", "C17", "C14", "C19", "C08", "C11", "C15", "C18", "C13", "C10", "C12", "C03", "C07", "C01", "C06", "C02", "C05",
         "C20", "C04", "C09"]
FILES = ["src/index.rs", "src/content/write.rs", "src/content/read.rs", "src/content/rm.rs", "src/content/path.rs",
         "src/content/linkto.rs", "src/put.rs", "src/get.rs", "src/rm.rs", "src/ls.rs", "src/linkto.rs", "src/errors.rs"]

SWAPS = [
    (r"(?<![-=<>!]) == ", " != ", "eq->ne"), (r" != ", " == ", "ne->eq"),
    (r"(?<![-=<>]) < (?!=)", " <= ", "lt->le"), (r" <= ", " < ", "le->lt"),
    (r"(?<![-=<>]) > (?!=)", " >= ", "gt->ge"), (r" >= ", " > ", "ge->gt"),
    (r" && ", " || ", "and->or"), (r" \|\| ", " && ", "or->and"),
    (r"\btrue\b", "false", "true->false"), (r"\bfalse\b", "true", "false->true"),
    (r"(?<=[\w\)\]]) \+ (?=[\w\(])", " - ", "plus->minus"), (r"(?<=[\w\)\]]) - (?=[\w\(])", " + ", "minus->plus"),
    (r"\.append\(true\)", ".write(true)", "append->write"),
    (r"\.create_new\(true\)", ".create(true)", "create_new->create"),
    (r"\.is_none\(\)", ".is_some()", "is_none->is_some"), (r"\.is_some\(\)", ".is_none()", "is_some->is_none"),
    (r"\.is_ok\(\)", ".is_err()", "is_ok->is_err"), (r"\.is_err\(\)", ".is_ok()", "is_err->is_ok"),
    (r"\.is_empty\(\)", ".is_empty().not()", "is_empty->not"),
    (r"(?<=::)(copy|hard_link|reflink)(?=(_async)?\()", r"\1_unchecked", "checked->unchecked"),
    (r"(?<![\w\.\"'])(\d+)(?![\w\.\"'])", lambda m: str(int(m.group(1)) + 1), "int+1"),
]


def code_lines(path):
    """(lineno, text) of lines that are code outside #[cfg(test)] modules, comments and attributes."""
    out = []
    with open(path) as fh:
        lines = fh.read().split("\n")
    in_test = False
    for i, l in enumerate(lines):
        s = l.strip()
        if s.startswith("#[cfg(test)]"):
            in_test = True  # test modules are last in every file of this crate
        if in_test or not s or s.startswith("//") or s.startswith("#[") or s.startswith("#!["):
            continue
        out.append((i, l))
    return lines, out


def mutants():
    ms = []
    for f in FILES:
        path = os.path.join(REPO, f)
        if not os.path.exists(path):
            continue
        lines, code = code_lines(path)
        for (i, l) in code:
            body = l.split(" //")[0]
            if '"' in body and ("context" in body or "format!" in body or "panic" in body):
                pass  # operators inside messages are filtered below by the quote test
            for (pat, rep, name) in SWAPS:
                for m in re.finditer(pat, body):
                    if body[:m.start()].count('"') % 2 == 1:
                        continue  # inside a string literal
                    r = rep(m) if callable(rep) else m.expand(rep) if "\\1" in rep else rep
                    new = body[:m.start()] + r + body[m.end():] + l[len(body):]
                    if name == "is_empty->not":
                        new = new.replace(".is_empty().not()", ".is_empty() == false")
                    ms.append({"file": f, "line": i + 1, "op": name, "old": l, "new": new})
            s = body.strip()
            m = re.match(r"^(\s*)if (?!let )(.+) \{$", body)
            if m and "else" not in body[:body.find("if")]:
                ms.append({"file": f, "line": i + 1, "op": "negate-if", "old": l, "new": "%sif !(%s) {" % (m.group(1), m.group(2))})
            if s.endswith("?;") and not s.startswith(("let ", "return", "//")) and s.count("(") == s.count(")") and s.count("{") == s.count("}"):
                ind = body[: len(body) - len(body.lstrip())]
                ms.append({"file": f, "line": i + 1, "op": "swallow-error", "old": l, "new": "%slet _ = %s;" % (ind, s[:-2])})
            if s.endswith(";") and re.match(r"^[a-z_][\w\.:]*(\(|\.)", s) and not s.startswith(("let ", "return", "use ", "pub ", "break", "continue")) \
                    and s.count("(") == s.count(")") and s.count("{") == s.count("}") and " = " not in s.split("(")[0]:
                ms.append({"file": f, "line": i + 1, "op": "delete-stmt", "old": l, "new": ""})
    for k, m in enumerate(ms):
        m["idx"] = k
    return ms


def sh(cmd, env=None, cwd=None, timeout=3600):
    e = dict(os.environ)
    e.update(env or {})
    e["CARGO_NET_OFFLINE"] = "true"
    try:
        p = subprocess.run(cmd, shell=True, cwd=cwd, env=e, stdout=subprocess.PIPE, stderr=subprocess.STDOUT, timeout=timeout)
        return p.returncode, p.stdout.decode("utf-8", "replace")
    except subprocess.TimeoutExpired as ex:
        return 124, (ex.stdout or b"").decode("utf-8", "replace")


def run(out_path, worker, nworkers, stride, only):
    ms = [m for m in mutants() if (not only or only in m["file"])]
    if os.environ.get("MUTCAMP_IDX"):
        # second pass: only the listed mutants (e.g. the ones not yet run and the survivors of an earlier pass)
        with open(os.environ["MUTCAMP_IDX"]) as fh:
            want = set(json.load(fh))
        ms = [m for m in ms if m["idx"] in want]
    mine = [m for j, m in enumerate(ms[::stride]) if j % nworkers == worker]
    passes_suite = set()
    if os.environ.get("MUTCAMP_PASSES_SUITE"):
        # mutants an earlier pass has already shown to pass the repository's suite
        with open(os.environ["MUTCAMP_PASSES_SUITE"]) as fh:
            passes_suite = set(json.load(fh))
    done = set()
    if os.path.exists(out_path):
        for l in open(out_path):
            try:
                done.add(json.loads(l)["idx"])
            except ValueError:
                pass
    wt = os.path.join(TMP, "wt%d" % worker)
    env = {"VERIF_REPO": wt, "VERIF_TARGET": os.path.join(TMP, "target%d" % worker), "VERIF_OUT": os.path.join(TMP, "out%d" % worker),
           "VERIF_JOBS": os.environ.get("VERIF_JOBS", "4"), "CARGO_TARGET_DIR": os.path.join(TMP, "suite%d" % worker)}
    os.makedirs(TMP, exist_ok=True)
    sh("git -C %s worktree remove --force %s" % (REPO, wt))
    rc, o = sh("git -C %s worktree add --detach %s HEAD" % (REPO, wt))
    if rc != 0:
        print("worktree failed", o)
        return 2
    shutil.copy(os.path.join(REPO, "Cargo.lock"), wt)
    head = sh("git -C %s rev-parse --short HEAD" % REPO)[1].strip()
    try:
        for m in mine:
            if m["idx"] in done:
                continue
            t0 = time.time()
            path = os.path.join(wt, m["file"])
            with open(path) as fh:
                lines = fh.read().split("\n")
            if lines[m["line"] - 1] != m["old"]:
                print("source drifted", m)
                continue
            saved = list(lines)
            lines[m["line"] - 1] = m["new"]
            with open(path, "w") as fh:
                fh.write("\n".join(lines))
            rec = {"idx": m["idx"], "file": m["file"], "line": m["line"], "op": m["op"], "old": m["old"].strip(), "new": m["new"].strip(), "repo_head": head}
            try:
                rc, o = sh("%s/check --build" % VERIF, env)
                if rc != 0:
                    rec["verdict"] = "does-not-build"
                else:
                    if m["idx"] in passes_suite:
                        rc, o = 0, "test result: ok (pass 1)"
                    else:
                        rc, o = sh("cargo test --offline --lib 2>&1 | tail -5", env, cwd=wt, timeout=900)
                    if "test result: ok" not in o:
                        rec["verdict"] = "killed-by-repo-suite"
                    else:
                        rec["verdict"] = "survived"
                        rec["silent"] = []
                        for c in ORDER:
                            rc, o = sh("%s/check %s quick" % (VERIF, c), env, timeout=1500)
                            if rc == 1 and "VIOLATION" in o:
                                sigs = re.findall(r"signature: (.*)", o)
                                rec["verdict"] = "caught"
                                rec["caught_by"] = c
                                rec["signatures"] = sigs[:3]
                                break
                            if rc != 0:
                                rec.setdefault("machinery", []).append({"check": c, "rc": rc, "tail": o[-300:]})
                            else:
                                rec["silent"].append(c)
            finally:
                with open(path, "w") as fh:
                    fh.write("\n".join(saved))
            rec["wall_s"] = round(time.time() - t0, 1)
            with open(out_path, "a") as fh:
                fh.write(json.dumps(rec) + "\n")
            print(json.dumps({k: rec[k] for k in ("idx", "file", "line", "op", "verdict", "wall_s")} | {"by": rec.get("caught_by")}), flush=True)
    finally:
        sh("git -C %s worktree remove --force %s" % (REPO, wt))
        for d in ("target%d", "out%d", "suite%d"):
            shutil.rmtree(os.path.join(TMP, d % worker), ignore_errors=True)
    return 0


if __name__ == "__main__":
    if len(sys.argv) >= 2 and sys.argv[1] == "list":
        ms = mutants()
        for m in ms:
            print(m["idx"], "%s:%d" % (m["file"], m["line"]), m["op"], "|", m["old"].strip()[:90], "=>", m["new"].strip()[:90])
        print(len(ms), "mutants", file=sys.stderr)
    elif len(sys.argv) >= 5 and sys.argv[1] == "run":
        sys.exit(run(sys.argv[2], int(sys.argv[3]), int(sys.argv[4]), int(sys.argv[5]) if len(sys.argv) > 5 else 1, sys.argv[6] if len(sys.argv) > 6 else None))
    else:
        print(__doc__)
        sys.exit(2)
