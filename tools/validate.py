#!/usr/bin/env python3
import json, glob, sys
import jsonschema
m = json.load(open('/verif/MANIFEST.json'))
jsonschema.validate(m, json.load(open('/root/.vp/MANIFEST.schema.json')))
es = json.load(open('/root/.vp/EVIDENCE.schema.json'))
bad = 0
for c in m['checks']:
    try:
        e = json.load(open(c['evidence_file']))
        jsonschema.validate(e, es)
        assert e['level'] == c['level_claimed']['category'], 'level mismatch'
    except Exception as ex:
        bad += 1
        print('BAD', c['property_id'], str(ex)[:200])
print('manifest valid; %d checks; %d bad evidence' % (len(m['checks']), bad))
sys.exit(1 if bad else 0)
