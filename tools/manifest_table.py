"""Per-property claims. Only properties whose check exists and has been run are listed."""


def fill(add):
    add("C02", "exploration",
        "bounded-exhaustive input enumeration through the real API with an independent digest/byte oracle",
        "Every write entry point x sync/async side x 3 flavour builds x 5 algorithms x size table (0..3 MiB incl. mmap threshold -1/0/+1) x chunkings (all compositions for n<=6, structured family above) x declared size x hostile keys is executed against the real library; the returned integrity is compared with hashlib/xxhash-rust, the content file and every read entry point with the exact bytes.",
        "Trusted: hashlib (OpenSSL) digests, the xxhash-rust crate for xxh3, tmpfs semantics. Sizes and chunkings are the stated finite tables, not all inputs.",
        "DESIGN.md 4/C02", "seqx")
