"""Per-property claims. Only properties whose check exists and has been run are listed."""


def fill(add):
    add("C02", "exploration",
        "bounded-exhaustive input enumeration through the real API with an independent digest/byte oracle",
        "Every write entry point x sync/async side x 3 flavour builds x 5 algorithms x size table (0..3 MiB incl. mmap threshold -1/0/+1) x chunkings (all compositions for n<=6, structured family above) x declared size x hostile keys is executed against the real library; the returned integrity is compared with hashlib/xxhash-rust, the content file and every read entry point with the exact bytes.",
        "Trusted: hashlib (OpenSSL) digests, the xxhash-rust crate for xxh3, tmpfs semantics. Sizes and chunkings are the stated finite tables, not all inputs.",
        "DESIGN.md 4/C02", "seqx+fsx")
    add("C01", "fault_enumeration",
        "exhaustive fault enumeration on the on-disk state (damage states x checked retrieval entry points)",
        "Every damage state of the content file (all single-bit flips and truncation lengths of small files, boundary offsets of large ones, extension, empty, another entry's bytes, symlink substitution, directory) is put on disk and every checked retrieval entry point of all three flavour builds is executed on it; a success must deliver exactly the stored bytes. In addition every read system call of the checked retrievals is answered short (fsx short-answer mode) on pristine, flipped, truncated and extended content.",
        "Trusted: SHA-256 comparison of delivered bytes; reflink cannot succeed on the file systems available, so only its failures are exercised.",
        "DESIGN.md 4/C01", "seqx+fsx")
    add("C05", "model_checking",
        "explicit-state breadth-first model checking of the implementation's on-disk states against a dictionary model",
        "All histories up to the depth bound over writes (two record lengths, sync/async, session and one-shot), removals and foreign live/tombstone records on two sibling keys are executed on the real library from the empty cache and from a reference-written seed (tombstone, torn fragment, invalid-UTF-8 line); every distinct state is observed through every lookup entry point and compared with the model.",
        "Trusted: the dictionary model, the state canonicalisation (tombstone and wall-clock times abstracted; argued in DESIGN 3.3). Bound: depth 3 quick / 4 (6 on one key) thorough.",
        "DESIGN.md 4/C05", "seqx")
    add("C09", "model_checking",
        "explicit-state breadth-first model checking of the implementation's on-disk states against a dictionary model",
        "All histories up to the depth bound over writes, remove, remove_hash, remove_fully and clear (sync and async) on three keys sharing index directories and two values sharing a content directory; every key and address is observed after every transition.",
        "Trusted: dictionary model; removing absent things may answer Ok or IoError. Bound: depth 4 quick / 5 thorough.",
        "DESIGN.md 4/C09", "seqx")
    add("C10", "model_checking",
        "explicit-state breadth-first model checking of the implementation's on-disk states; listing oracle in every state",
        "In every state reachable within the depth bound (writes with non-monotone timestamps, removals, re-writes on three keys; seeds with tombstones first/middle/last) the items of list_sync are compared with the model and with lookups: no duplicate, no phantom, no missing key, every field equal.",
        "Trusted: dictionary model. F7: an index-less cache lists as one NotFound error (pinned by the repository's own test).",
        "DESIGN.md 4/C10", "seqx")
    add("C16", "model_checking",
        "explicit-state BFS over re-write histories plus bounded-exhaustive digest enumeration with independent digest implementations",
        "Returned addresses are compared with hashlib and coreutils (xxh3: xxhash-rust) for every algorithm x size x entry point x flavour; BFS over histories re-writing equal bytes through different keys, entry points, chunkings, flavours and algorithms (with damage actions) checks that content-v2 holds exactly one byte-identical file per (algorithm, bytes) and that each copy is verified with its own algorithm; a re-write of stored bytes is killed at every file-system system call (fsx) and the stored copy must stay in place.",
        "Trusted: hashlib/coreutils digests; xxh3 only against the same crate ssri uses.",
        "DESIGN.md 4/C16", "seqx+fsx")
    add("C17", "model_checking",
        "two-way trace conformance between the implementation and an independent format codec over exhaustively enumerated histories",
        "Direction 1: every BFS state and every hostile-key/metadata write of the library is checked byte for byte against the documented grammar and decoded by the reference decoder. Direction 2: every history up to the bound, every hostile key and metadata value is written by the reference encoder (two serialiser variants) and read back through all lookup entry points of the three flavours.",
        "Trusted: vlib/ref.py as the statement of the format. Byte identity between writers is not demanded.",
        "DESIGN.md 4/C17", "seqx")
    add("C18", "fault_enumeration",
        "exhaustive fault enumeration on the on-disk state x extraction entry points x destination states",
        "Every extraction entry point (checked/unchecked, by key/address, three flavours) on pristine, damaged (one representative per damage class) and missing content, with absent/existing/unreachable destinations and present/absent keys; success must leave exactly the stored bytes, failed verification must not leave the unverified bytes.",
        "Trusted: byte comparison at the destination. reflink success paths unreachable on tmpfs/ext4.",
        "DESIGN.md 4/C18", "seqx")
    add("C03", "fault_enumeration",
        "exhaustive crash-point and torn-write enumeration of the real writer process under a ptrace controller (fsx)",
        "For every writer scenario (one-shot, streamed, memory-mapped and plain, keyed and by address, sync/async-std/tokio, cold/warm/address already present) the real process is killed at the entry of every file-system system call and with every write torn at every byte length (exhaustive up to 4 KiB, boundary values beyond); after every kill every file under content-v2 must sit at the digest of its bytes and a fresh process must read every address as complete data or absent. Also rejected/dropped writers (fewer/more bytes than declared) without any crash, and one injected failure of the publishing rename (EXDEV/EIO/ENOSPC) combined with the crash enumeration over everything that follows.",
        "Trusted: kernel atomicity of one write/rename system call with respect to the kill; crash = process death (nothing is fsynced, power loss is not claimed); mmap stores touch only the private temp file between two steps.",
        "DESIGN.md 4/C03", "fsx+seqx")
    add("C04", "fault_enumeration",
        "exhaustive crash-point and torn-write enumeration (fsx) followed by explicit-state exploration of continuation histories",
        "Keyed writes (first, overwrite longer/shorter/same content, multi-byte key and metadata, rewrite after removal) and tombstone removals are killed at every system call and with the index append torn at every byte length; every distinct crash state is observed through all lookup entry points (old or new state exactly, other keys unchanged, reference decoder agrees) and every continuation history up to the depth bound is executed (later writes succeed and are visible through every entry point).",
        "Trusted: as C03. Continuation alphabet of 6 actions, depth 1 quick / 2 thorough.",
        "DESIGN.md 4/C04", "fsx+seqx")
    add("C07", "model_checking",
        "stateless model checking of the implementation under a ptrace scheduler: unbounded schedule exploration with sleep-set partial-order reduction plus preemption-bounded exhaustive enumeration, serialisability oracle",
        "2-3 real library processes (and, for curated pairs, threads of one process) are stopped at every file-system system call. Warm-cache pairs (and cold pairs without two writers): ALL interleavings, one execution per class of interleavings that differ only in the order of independent steps; the reduction is cross-checked in every run against brute force on short pairs (same results, same interleaving classes). Cold writer pairs, threads, triples on cold caches: all schedules up to a preemption bound (2 quick, 3 thorough). Replies and final state must equal the model's result for some sequential order, and for serial schedules the order that ran.",
        "Trusted: one file-system system call as the atomic step (the property's granularity); dictionary model; the dependence relation of the reduction (DESIGN 9.5; validated against brute force). Bounded scenarios: schedules beyond the preemption bound are not covered.",
        "DESIGN.md 4/C07", "fsx")
    add("C13", "fault_enumeration",
        "exhaustive single (thorough: pairwise) fault injection at the system-call boundary of the real process (ptrace: syscall suppressed, -errno returned; short write then failure)",
        "23 operations (incl. link_to, writers that miss their declared size, a caller that retries failed writes) x 3 flavours on a warm cache: every file-system system call of the operation fails with every applicable errno, every write is answered short and then failed; each execution is judged: returns a value, Ok is truthful, bystanders intact, content area valid, operated key old or new, retry without faults succeeds and reaches the expected state.",
        "Trusted: the errno applicability table (DESIGN 3.4); ptrace injection replaces the kernel's answer only (no kernel-side partial effects other than the modelled short write).",
        "DESIGN.md 4/C13", "fsx")
    add("C15", "exploration",
        "exhaustive operation x hostile-key enumeration with complete system-call effect monitoring under ptrace (fsx monitor mode)",
        "Every public operation (35 base operations, sync and async variants, 3 flavours) is run with every key of the hostile/confusable set on cold, warm, index-only and tmp-blocked caches with the root given absolute, relative and through a symlink; every path-taking or descriptor-writing system call is recorded with its resolved path: mutating calls only inside the root or on the explicit destination, touched paths derived only from SHA-1(key)/digest, read-only calls issue no mutating call and leave the tree unchanged.",
        "Trusted: the monitor's system-call table and its mutating/non-mutating classification; lexical path resolution.",
        "DESIGN.md 4/C15", "fsx")
    add("C06", "fault_enumeration",
        "exhaustive fault enumeration on index files with a differential oracle (independent reference decoder) and a containment check against the write history",
        "Bucket histories written by the library (all histories up to length 3 over short/long-non-ASCII/foreign/tombstone; 12 representative in quick) x every damage (each record cut at every byte length, every single-bit flip, each separating newline deleted, 11 garbage lines at every boundary, transposed/duplicated records and fragments) x 0-2 further appends; every lookup entry point of the three flavours and list_sync must equal the reference decoding of the damaged bytes, untouched records must survive, no entry that was not written verbatim.",
        "Trusted: vlib/ref.py decoder (CR handling of a line is accepted in any of three variants as long as all entry points agree).",
        "DESIGN.md 4/C06", "seqx")
    add("C08", "exploration",
        "bounded-exhaustive input and history enumeration through the real API with a table oracle",
        "Prior key state x keyed/by-address writer x side x flavour x sizes around the mmap threshold x chunking x declared size (none, n, n-1, n+1, 0, 2n+3) x 7 declared-integrity forms x algorithms: the commit's reply variant is compared with the table, and on rejection the key's mapping is compared before/after through sync and async lookups; on acceptance the key must resolve to the data.",
        "A correct digest under another algorithm than the writer's may be accepted or rejected (property text and API doc disagree); only 'rejected => nothing mapped' is demanded there.",
        "DESIGN.md 4/C08", "seqx")
    add("C11", "exploration",
        "bounded-exhaustive input enumeration through the real API with exact structural comparison",
        "Full products JSON-metadata-value table (about 1.1k values of depth <= 2) x entry point x flavour and timestamp table (0 .. 2^128-1) x hostile keys x entry point x flavour, raw metadata table, declared sizes; defaults (time window in Unix ms, counted size, null metadata) for 5 entry points x 5 sizes x chunkings; read back through metadata*, index::find*, list_sync.",
        "Trusted: Python json/Decimal for exact number comparison.",
        "DESIGN.md 4/C11", "seqx")
    add("C14", "model_checking",
        "explicit-state breadth-first model checking of on-disk states with abandonment episodes as actions; in-flight case with both completion orders",
        "BFS over ordinary writes/removals plus abandonment episodes (sync/async, keyed/by address, bytes equal to an existing value or fresh, declared size none/correct/wrong, dropped after creation/1 chunk/2 chunks/flush/close, commits rejected by size/integrity/declared > 1 MiB); after every transition lookups, listing, tmp/ and the content file set must equal the model. In-flight: poll_write once, then the writer is dropped while the blocking task is in flight or after it completed (async-std, tokio); both orders are forced by hold rules of the ptrace controller and verified from the step trace.",
        "For memory-mapped declared sizes (no write system call to hold) the two in-flight orders are forced by a delay instead. Data of a rejected commit may stay retrievable by address.",
        "DESIGN.md 4/C14", "seqx+fsx")
    add("C19", "exploration",
        "bounded-exhaustive input and history enumeration through the real API (link_to builds)",
        "Target size x path form (absolute, relative, ../, via symlinked directory) x entry point (link_to*, link_to_hash*, WriteOpts::link_to* with correct/wrong size and integrity, stepwise linker with partial reads) x post-link event (modify, truncate, extend, remove, replace) x pre-existing regular content x flavour: reads return the bytes as of link time or fail, the content path is a symlink (no copy), the target's inode/mtime/bytes never change, wrong declarations are rejected and map nothing.",
        "Trusted: stat() of the target for 'never modified'.",
        "DESIGN.md 4/C19", "seqx")
    add("C12", "model_checking",
        "differential lock-step exploration of the three implementations against each other (explicit-state, de-duplicated on state triples)",
        "The tree of all programs up to the length bound (4 quick / 5 thorough; breadth-first, a state is expanded at the smallest depth it is reached at) over 36 actions (writes with options, chunked, one-shot, by address, rejected commits, empty value, late overflow, reads, streamed reads, extractions, re-link after in-place damage, removals, remove_fully, clear, listing, link_to, 7 damage steps) is executed on three caches by the sync, async-std and tokio builds; after every step the normalised replies and the decoded trees are compared. Mixed-flavour: every program up to length 3 over 12 actions x every flavour assignment on one shared cache, compared with the pure-sync run.",
        "Error messages are not compared (variant and io kind are); wall-clock and tombstone times normalised. By-address/unchecked hard links and reflink*_unchecked exist only as _sync calls.",
        "DESIGN.md 4/C12", "seqx")
    add("C20", "exploration",
        "bounded-exhaustive enumeration of inputs and on-disk states with a totality oracle (panic catcher, process liveness, watchdog confirmed on a second run)",
        "A battery of 21 operations x 3 flavours runs on every structural state (8 places x 6 kinds: directory, file, dangling symlink, symlink loop, unreadable directory, symlink to directory) and on every degenerate checksum-valid record (23 payloads x appended/only); writer/reader input shapes (declared size x chunkings incl. empty / more / fewer bytes, closed writers, reads after EOF); and the enumerations of C01, C02, C06, C08, C11, C18, C19 are re-run with the totality oracle only. The fault-injection (C13), crash (C03/C04) and schedule (C07) checks apply the same oracle to their own executions.",
        "Integrity arguments are well-formed (the property's assumption). FIFOs/device nodes are outside the alphabet.",
        "DESIGN.md 4/C20", "seqx")
