#!/usr/bin/env python3
"""tools/mutreport.py <results.jsonl>... : summary of a mutation campaign (tools/mutcamp.py) as markdown."""
import collections
import json
import sys

recs = {}
for p in sys.argv[1:]:
    for l in open(p):
        try:
            r = json.loads(l)
        except ValueError:
            continue
        recs[r["idx"]] = r
c = collections.Counter(r["verdict"] for r in recs.values())
by = collections.Counter(r.get("caught_by") for r in recs.values() if r["verdict"] == "caught")
ops = collections.Counter((r["op"], r["verdict"]) for r in recs.values())
print("mutants run: %d; do not build: %d; killed by the repository's own suite: %d; reached the checks: %d (caught %d, survived %d)" % (
    len(recs), c["does-not-build"], c["killed-by-repo-suite"], c["caught"] + c["survived"], c["caught"], c["survived"]))
print("first check to report (fixed order): " + ", ".join("%s %d" % (k, v) for k, v in sorted(by.items())))
print()
print("| operator | not building | repo suite | caught | survived |")
print("|---|---|---|---|---|")
for op in sorted({o for o, _ in ops}):
    print("| %s | %d | %d | %d | %d |" % (op, ops[(op, "does-not-build")], ops[(op, "killed-by-repo-suite")], ops[(op, "caught")], ops[(op, "survived")]))
print()
print("survivors:")
for r in sorted((r for r in recs.values() if r["verdict"] == "survived"), key=lambda r: r["idx"]):
    print("- #%d %s:%d %s: `%s` -> `%s`" % (r["idx"], r["file"], r["line"], r["op"], r["old"][:90], r["new"][:90]))
