"""Independent reference implementation of the cacache on-disk format, digests and test data.

Nothing here calls the library: hashlib (OpenSSL) for digests, json for records.
"""
import base64
import hashlib
import json
import os
from decimal import Decimal

ALGOS = ("sha512", "sha384", "sha256", "sha1", "xxh3")
HASHLIB = {"sha512": hashlib.sha512, "sha384": hashlib.sha384, "sha256": hashlib.sha256, "sha1": hashlib.sha1}
DIGEST_LEN = {"sha512": 64, "sha384": 48, "sha256": 32, "sha1": 20, "xxh3": 16}
INDEX_DIR = "index-v5"
CONTENT_DIR = "content-v2"
MIB = 1 << 20

_PERIOD = 251 * 256
_gen_cache = {}


def gen(n, tag=0):
    """d[i] = (i*131 + i//251 + tag) mod 256 — same formula as the opserver; period 64256."""
    key = (n, tag)
    b = _gen_cache.get(key)
    if b is None:
        per = _gen_cache.get(("p", tag))
        if per is None:
            per = bytes(((i * 131 + i // 251 + tag) % 256) for i in range(_PERIOD))
            _gen_cache[("p", tag)] = per
        reps = n // _PERIOD + 1
        b = (per * reps)[:n]
        if n <= 4 * MIB and len(_gen_cache) < 200:
            _gen_cache[key] = b
    return b


def sha256hex(b):
    return hashlib.sha256(b).hexdigest()


def digest_hex(algo, data, xxh3=None):
    """hex digest under algo. xxh3 has no second implementation here: the caller passes a function."""
    if algo == "xxh3":
        if xxh3 is None:
            raise ValueError("xxh3 needs an oracle function")
        return xxh3(data)
    return HASHLIB[algo](data).hexdigest()


def sri_of(algo, hexdigest):
    return algo + "-" + base64.b64encode(bytes.fromhex(hexdigest)).decode()


def sri(algo, data, xxh3=None):
    return sri_of(algo, digest_hex(algo, data, xxh3))


def sri_parts(s):
    """'sha256-BASE64' -> (algo, hex). Only single-hash strings."""
    algo, _, b64 = s.partition("-")
    return algo, base64.b64decode(b64).hex()


def bucket_rel(key):
    h = hashlib.sha1(key.encode("utf-8")).hexdigest()
    return os.path.join(INDEX_DIR, h[0:2], h[2:4], h[4:])


def content_rel(sri_str):
    algo, hx = sri_parts(sri_str)
    return os.path.join(CONTENT_DIR, algo, hx[0:2], hx[2:4], hx[4:])


# ---------------------------------------------------------------------------- records

def encode_json(entry, variant=0):
    """entry: dict(key, integrity|None, time:int, size:int, metadata:any, raw_metadata: bytes|None).
    variant 0: field order of the documentation; variant 1: another order and compact separators
    with non-ASCII escaped — the format does not fix either."""
    raw = entry.get("raw_metadata")
    d = {
        "key": entry["key"],
        "integrity": entry.get("integrity"),
        "time": entry["time"],
        "size": entry["size"],
        "metadata": entry.get("metadata"),
        "raw_metadata": None if raw is None else list(raw),
    }
    if variant == 0:
        return json.dumps(d, ensure_ascii=False, separators=(",", ":"))
    d2 = {k: d[k] for k in ("raw_metadata", "metadata", "size", "time", "integrity", "key")}
    return json.dumps(d2, ensure_ascii=True, separators=(", ", ": "))


def encode_record(entry, variant=0):
    js = encode_json(entry, variant)
    return ("\n" + sha256hex(js.encode("utf-8")) + "\t" + js).encode("utf-8")


def _parse_json_exact(text):
    return json.loads(text, parse_float=Decimal, parse_int=int)


def decode_line(line, strip_cr=True):
    """line: bytes without the terminating \\n. Returns a record dict or None."""
    if strip_cr and line.endswith(b"\r"):
        line = line[:-1]
    try:
        text = line.decode("utf-8")
    except UnicodeDecodeError:
        return None
    parts = text.split("\t")
    if len(parts) != 2:
        return None
    h, js = parts
    if sha256hex(js.encode("utf-8")) != h:
        return None
    try:
        v = _parse_json_exact(js)
    except (ValueError, RecursionError):
        return None
    if not isinstance(v, dict):
        return None
    for f in ("key", "time", "size", "metadata"):
        if f not in v:
            return None
    if not isinstance(v["key"], str):
        return None
    if not (isinstance(v["time"], int) and not isinstance(v["time"], bool) and 0 <= v["time"] < 2 ** 128):
        return None
    if not (isinstance(v["size"], int) and not isinstance(v["size"], bool) and 0 <= v["size"] < 2 ** 64):
        return None
    integ = v.get("integrity")
    if integ is not None and not isinstance(integ, str):
        return None
    if integ is not None and not usable_sri(integ):
        return None   # cannot name a content file: ignored like any other invalid record
    raw = v.get("raw_metadata")
    if raw is not None:
        if not (isinstance(raw, list) and all(isinstance(x, int) and not isinstance(x, bool) and 0 <= x < 256 for x in raw)):
            return None
        raw = bytes(raw)
    return {"key": v["key"], "integrity": integ, "time": v["time"], "size": v["size"], "metadata": v["metadata"],
            "raw_metadata": raw}


def decode_bucket(data, cr="always"):
    """All valid records of a bucket file, in file order. cr: how a trailing CR of a line is treated —
    "always" stripped, "never", or "crlf" (stripped only when a newline follows, the behaviour of the
    usual line readers). The format does not say; callers that compare with the library accept any of the
    three as long as all entry points agree."""
    out = []
    lines = data.split(b"\n")
    for i, line in enumerate(lines):
        last = i == len(lines) - 1
        strip = cr == "always" or (cr == "crlf" and not last)
        r = decode_line(line, strip_cr=strip)
        if r is not None:
            out.append(r)
    return out


def split_bucket(data):
    """[(start, end, record|None)] for each \\n-separated line (end excludes the newline)."""
    out = []
    pos = 0
    for line in data.split(b"\n"):
        out.append((pos, pos + len(line), decode_line(line)))
        pos += len(line) + 1
    return out


def usable_sri(s):
    """An integrity string that can name a content file: one or more whitespace-separated <algo>-<digest> items of a
    known algorithm whose digest is canonical padded base64 of at least 3 bytes (the content path is split 2/2/rest of
    the hex digest). The digest length is NOT checked against the algorithm (the repository's own tests use
    'sha1-deadbeef')."""
    items = s.split()
    if not items:
        return False
    for it in items:
        algo, sep, b64 = it.partition("-")
        b64 = b64.split("?")[0]
        if not sep or algo not in ALGOS:
            return False
        try:
            raw = base64.b64decode(b64, validate=True)
        except Exception:
            return False
        if len(raw) < 3 or base64.b64encode(raw).decode() != b64:
            return False
    return True


def valid_sri(s):
    """Does the integrity string parse as a single well-formed hash of a known algorithm?"""
    algo, sep, b64 = s.partition("-")
    if not sep or algo not in ALGOS:
        return False
    try:
        raw = base64.b64decode(b64, validate=True)
    except Exception:
        return False
    return len(raw) == DIGEST_LEN[algo]


def effective(records, key):
    """The entry a lookup of key must return according to the format: last record for that key wins,
    a null integrity clears."""
    cur = None
    for r in records:
        if r["key"] != key:
            continue
        if r["integrity"] is None:
            cur = None
        else:
            cur = r
    return cur


def live_entries(records):
    """dict key -> effective entry for all keys of a record list (one bucket or all)."""
    out = {}
    for r in records:
        if r["integrity"] is None:
            out.pop(r["key"], None)
        else:
            out[r["key"]] = r
    return out


# ---------------------------------------------------------------------------- trees

def decode_tree(snap):
    """snap: {relpath: ('f', bytes) | ('d',) | ('l', target)}. Returns (records_by_bucket, content_by_relpath)."""
    buckets = {}
    content = {}
    for rel, ent in snap.items():
        if ent[0] != "f":
            continue
        if rel.startswith(INDEX_DIR + "/"):
            buckets[rel] = decode_bucket(ent[1])
        elif rel.startswith(CONTENT_DIR + "/"):
            content[rel] = ent[1]
    return buckets, content


def tree_live(snap):
    """key -> effective entry for the whole tree, honouring that a key's records only count in its own
    bucket file."""
    out = {}
    buckets, _ = decode_tree(snap)
    for rel, recs in buckets.items():
        for k, e in live_entries(recs).items():
            if bucket_rel(k) == rel:
                out[k] = e
    return out


def content_path_ok(rel, data, xxh3=None):
    """Is a file under content-v2 at a well-formed address that is the digest of its bytes?"""
    parts = rel.split("/")
    if len(parts) != 5 or parts[0] != CONTENT_DIR:
        return False
    algo = parts[1]
    if algo not in ALGOS:
        return False
    hx = parts[2] + parts[3] + parts[4]
    if len(parts[2]) != 2 or len(parts[3]) != 2 or len(hx) != 2 * DIGEST_LEN[algo]:
        return False
    try:
        return digest_hex(algo, data, xxh3) == hx
    except ValueError:
        return None


# ---------------------------------------------------------------------------- exact JSON comparison

def json_equal(a, b):
    """Structural equality with exact numbers; ints and Decimals compare by value, bool is not a number."""
    if isinstance(a, bool) or isinstance(b, bool):
        return isinstance(a, bool) and isinstance(b, bool) and a == b
    if a is None or b is None:
        return a is None and b is None
    num = (int, Decimal, float)
    if isinstance(a, num) and isinstance(b, num):
        return Decimal(str(a)) == Decimal(str(b)) if (isinstance(a, float) or isinstance(b, float)) else Decimal(a) == Decimal(b)
    if isinstance(a, str) and isinstance(b, str):
        return a == b
    if isinstance(a, list) and isinstance(b, list):
        return len(a) == len(b) and all(json_equal(x, y) for x, y in zip(a, b))
    if isinstance(a, dict) and isinstance(b, dict):
        return a.keys() == b.keys() and all(json_equal(a[k], b[k]) for k in a)
    return False


# ---------------------------------------------------------------------------- strict layout check (C17)

import re as _re

_HEX2 = _re.compile(r"^[0-9a-f]{2}$")
_FIELDS = {"key", "integrity", "time", "size", "metadata", "raw_metadata"}


def strict_tree_check(snap, xxh3=None, allow_tmp_files=False):
    """Problems (list of strings) with a tree the library produced, against the documented layout."""
    probs = []
    for rel, e in (snap or {}).items():
        parts = rel.split("/")
        top = parts[0]
        if top not in (INDEX_DIR, CONTENT_DIR, "tmp"):
            probs.append("unexpected top-level entry %r" % rel)
            continue
        if top == "tmp":
            if len(parts) > 1 and not allow_tmp_files:
                probs.append("left-over temp entry %r" % rel)
            continue
        if e[0] == "d":
            if top == INDEX_DIR and len(parts) > 3 or top == CONTENT_DIR and len(parts) > 4:
                probs.append("directory too deep: %r" % rel)
            continue
        if e[0] != "f":
            probs.append("non-regular entry %r (%s)" % (rel, e[0]))
            continue
        if top == INDEX_DIR:
            if not (len(parts) == 4 and _HEX2.match(parts[1]) and _HEX2.match(parts[2]) and _re.match(r"^[0-9a-f]{36}$", parts[3])):
                probs.append("bucket path not index-v5/hh/hh/<36 hex>: %r" % rel)
                continue
            probs += strict_bucket_check(rel, e[1])
        else:
            ok = content_path_ok(rel, e[1], xxh3)
            if ok is False:
                probs.append("content file %r does not sit at the digest of its bytes" % rel)
    return probs


def strict_bucket_check(rel, data):
    probs = []
    if data == b"":
        return probs
    if not data.startswith(b"\n"):
        return ["bucket %s does not start with a newline" % rel]
    for line in data[1:].split(b"\n"):
        try:
            text = line.decode("utf-8")
        except UnicodeDecodeError:
            probs.append("bucket %s: line is not UTF-8" % rel)
            continue
        m = _re.match(r"^([0-9a-f]{64})\t(.*)$", text, _re.S)
        if not m:
            probs.append("bucket %s: line is not <64 hex>\\t<json>: %r" % (rel, text[:60]))
            continue
        h, js = m.groups()
        if "\t" in js or "\r" in js:
            probs.append("bucket %s: raw tab/CR inside the JSON text" % rel)
        if sha256hex(js.encode("utf-8")) != h:
            probs.append("bucket %s: checksum is not the SHA-256 of the JSON text" % rel)
            continue
        try:
            v = _parse_json_exact(js)
        except ValueError:
            probs.append("bucket %s: JSON does not parse" % rel)
            continue
        if not isinstance(v, dict) or set(v.keys()) != _FIELDS:
            probs.append("bucket %s: record fields are %r" % (rel, sorted(v.keys()) if isinstance(v, dict) else type(v)))
            continue
        if not isinstance(v["key"], str) or bucket_rel(v["key"]) != rel:
            probs.append("bucket %s: holds key %r whose SHA-1 path is %s" % (rel, v["key"], bucket_rel(v["key"]) if isinstance(v["key"], str) else "?"))
        if v["integrity"] is not None and not (isinstance(v["integrity"], str) and valid_sri(v["integrity"])):
            probs.append("bucket %s: integrity %r is not a well-formed single hash" % (rel, v["integrity"]))
        if decode_line(line) is None:
            probs.append("bucket %s: reference decoder rejects a record the library wrote" % rel)
    return probs


def add_parent_dirs(snap):
    for rel in list(snap):
        p = os.path.dirname(rel)
        while p:
            snap.setdefault(p, ("d",))
            p = os.path.dirname(p)
    return snap
