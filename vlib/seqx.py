"""seqx: explicit-state breadth-first exploration of on-disk cache states through the real API.

State = (directory snapshot, model). Transition = restore the snapshot into a scratch directory, send one
action to the opserver, compare the reply with the model, snapshot again. Successors are de-duplicated on
(canonical disk state, canonical model state); the observation vector is taken on every distinct
successor and compared with the model. Level-synchronous over a process pool.
"""
import multiprocessing as mp
import os
import time
import traceback

from . import fsutil, ref, run, wr
from .model import Model, observe_and_check
from .run import V, classify

_spec = None


class Spec:
    """What a BFS explores. Subclass or fill in fields."""
    prop = "C00"
    flavour = "astd"
    keys = ()
    values = {}        # name -> dict(n, tag, algo, time, metadata, raw_metadata)
    depth = 3
    sig_prefix = "bfs"

    def actions(self, state):
        raise NotImplementedError

    def apply(self, ctx, res, srv, cache, action, model, replay):
        return apply_standard(self, ctx, res, srv, cache, action, model, replay)

    def addrs(self, ctx):
        out = []
        for v in self.values.values():
            s = ctx.sri(v.get("algo", "sha256"), ref.gen(v["n"], v["tag"]))
            if s not in out:
                out.append(s)
        return out

    def observe(self, ctx, res, srv, cache, model, replay):
        return observe_and_check(ctx, res, srv, self.flavour, cache, model, self.keys, self.addrs(ctx),
                                 sig_prefix=self.sig_prefix, replay=replay)

    def extra_state_check(self, ctx, res, cache, snap, model, replay):
        content_invariant(ctx, res, snap, self.sig_prefix, replay)


def content_invariant(ctx, res, snap, sig_prefix, replay):
    """C03's invariant in a quiescent state: every regular file under content-v2 sits at a well-formed
    address that is the digest of its bytes."""
    for rel, e in (snap or {}).items():
        if rel.startswith(ref.CONTENT_DIR + "/") and e[0] == "f":
            ok = ref.content_path_ok(rel, e[1], ctx.xxh3)
            if ok is False:
                r = dict(replay)
                r["bad_content_file"] = rel
                V.violation(res, "%s:content-file-not-matching-address" % sig_prefix,
                            "file %s (%d bytes) does not hash to its address" % (rel, len(e[1])), r)


def label(action):
    t = action["t"]
    if t == "W":
        return "W(%s,%s,%s,%s)" % (action["key"], action["val"], action["side"], action.get("how", "session"))
    if t == "F":
        return "F(%s in bucket of %s,%s)" % (action["fkey"], action["host"], action.get("val"))
    if t in ("R", "RF"):
        return "%s(%s,%s)" % (t, action["key"], action["side"])
    if t == "RH":
        return "RH(%s,%s)" % (action["val"], action["side"])
    if t == "CL":
        return "CL(%s)" % action["side"]
    return repr(action)


def apply_standard(spec, ctx, res, srv, cache, action, model, replay):
    """Execute one action of the standard alphabet and update the model; reply/model disagreements are
    recorded as violations. Returns the reply."""
    t = action["t"]
    side = action.get("side", "s")
    sync = side == "s"

    def bad(sig, what, rep):
        r = dict(replay)
        r["reply"] = rep
        V.violation(res, "%s:%s" % (spec.sig_prefix, sig), what, r)

    if t == "W":
        v = spec.values[action["val"]]
        n, tag, algo = v["n"], v["tag"], v.get("algo", "sha256")
        data = ref.gen(n, tag)
        how = action.get("how", "session")
        key = action["key"]
        want_sri = ctx.sri(algo, data)
        if how == "session":
            opts = {"time": str(v["time"])}
            if "metadata" in v:
                opts["metadata"] = v["metadata"]
            if v.get("raw_metadata") is not None:
                opts["raw_metadata"] = v["raw_metadata"].hex()
            if v.get("declare_size"):
                opts["size"] = n
            rep, trace = wr.do_write(srv, cache, side=side, entry="open", key=key, algo=algo, n=n, tag=tag, chunks=v.get("chunks"), opts=opts)
            res["transitions"] += len(trace)
            mtime = v["time"]
            msize = n
        elif how == "oneshot":
            t0 = int(time.time() * 1000)
            rep, trace = wr.do_write(srv, cache, side=side, entry="oneshot_algo", key=key, algo=algo, n=n, tag=tag)
            t1 = int(time.time() * 1000) + 1
            res["transitions"] += 1
            mtime = (t0, t1)
            msize = n
        else:
            raise ValueError(how)
        if "ok" not in rep or rep["ok"] != want_sri:
            bad("write:%s/%s:%s" % (how, side, classify(rep) if "ok" not in rep else "wrong-digest"),
                "write %s did not return Ok(%s): %s" % (label(action), want_sri, _short(rep)), rep)
            if "ok" not in rep:
                return rep
        model.write(key, want_sri, data, size=msize, time=mtime, metadata=v.get("metadata") if how == "session" else None,
                    raw_metadata=v.get("raw_metadata") if how == "session" else None)
        return rep
    if t == "R":
        rep = srv.call({"op": "remove_sync" if sync else "remove", "cache": cache, "key": action["key"]})
        res["transitions"] += 1
        if "ok" not in rep:
            bad("remove/%s:%s" % (side, classify(rep)), "remove(%r) failed: %s" % (action["key"], _short(rep)), rep)
            return rep
        model.remove(action["key"])
        return rep
    if t == "RH":
        v = spec.values[action["val"]]
        sri = ctx.sri(v.get("algo", "sha256"), ref.gen(v["n"], v["tag"]))
        rep = srv.call({"op": "remove_hash_sync" if sync else "remove_hash", "cache": cache, "sri": sri})
        res["transitions"] += 1
        present = sri in model.content
        if present:
            if "ok" not in rep:
                bad("remove_hash/%s:%s" % (side, classify(rep)), "remove_hash of a stored address failed: %s" % _short(rep), rep)
                return rep
            model.remove_hash(sri)
        else:
            if not ("ok" in rep or (rep.get("err", {}).get("variant") == "IoError")):
                bad("remove_hash-absent/%s:%s" % (side, classify(rep)), "remove_hash of an absent address: %s" % _short(rep), rep)
        return rep
    if t == "RF":
        key = action["key"]
        rep = srv.call({"op": "remove_opts_sync" if sync else "remove_opts", "cache": cache, "key": key, "fully": True})
        res["transitions"] += 1
        e = model.index.get(key)
        if e is not None:
            if "ok" not in rep:
                bad("remove_fully/%s:%s" % (side, classify(rep)), "remove_fully(%r) of a live entry failed: %s" % (key, _short(rep)), rep)
                return rep
            model.remove_fully(key)
            # the bucket file is gone: foreign records hosted in it went with it
            for fk in [fk for fk in model.foreign if ref.bucket_rel(fk[1]) == ref.bucket_rel(key)]:
                model.foreign.pop(fk)
        else:
            if not ("ok" in rep or rep.get("err", {}).get("variant") == "IoError"):
                bad("remove_fully-absent/%s:%s" % (side, classify(rep)), "remove_fully(%r): %s" % (key, _short(rep)), rep)
            if "ok" in rep:
                # entry absent (or content already gone and entry live => error, handled above)
                if e is None:
                    for fk in [fk for fk in model.foreign if ref.bucket_rel(fk[1]) == ref.bucket_rel(key)]:
                        model.foreign.pop(fk)
        return rep
    if t == "CL":
        rep = srv.call({"op": "clear_sync" if sync else "clear", "cache": cache})
        res["transitions"] += 1
        if "ok" not in rep:
            if not os.path.isdir(cache) and rep.get("err", {}).get("variant") == "IoError":
                return rep  # clearing a cache directory that does not exist
            bad("clear/%s:%s" % (side, classify(rep)), "clear failed: %s" % _short(rep), rep)
            return rep
        model.clear()
        model.foreign = {}
        return rep
    if t == "F":
        # a valid record for a foreign key appended to the host key's bucket by the reference codec
        host, fkey = action["host"], action["fkey"]
        if action.get("val") is None:
            entry = {"key": fkey, "integrity": None, "time": 5, "size": 0, "metadata": None, "raw_metadata": None}
        else:
            v = spec.values[action["val"]]
            entry = {"key": fkey, "integrity": ctx.sri(v.get("algo", "sha256"), ref.gen(v["n"], v["tag"])), "time": v["time"], "size": v["n"],
                     "metadata": v.get("metadata"), "raw_metadata": v.get("raw_metadata")}
        p = os.path.join(cache, ref.bucket_rel(host))
        os.makedirs(os.path.dirname(p), exist_ok=True)
        with open(p, "ab") as fh:
            fh.write(ref.encode_record(entry, variant=action.get("variant", 0)))
        if ref.bucket_rel(fkey) == ref.bucket_rel(host):
            # same bucket (true collision or same key): an ordinary record
            if entry["integrity"] is None:
                model.remove(fkey)
            else:
                model.insert(fkey, entry["integrity"], size=entry["size"], time=entry["time"], metadata=entry["metadata"], raw_metadata=entry["raw_metadata"])
        else:
            if entry["integrity"] is None:
                model.foreign.pop((fkey, host), None)
            else:
                model.foreign[(fkey, host)] = entry
        return {"ok": None}
    raise ValueError(t)


def _short(x):
    s = repr(x)
    return s if len(s) < 300 else s[:300] + "..."


# ----------------------------------------------------------------------------- BFS

def _expand(ctx, state):
    spec = _spec
    res = V.new()
    snap, model, hist, seed, _unused, acts = state
    srv = ctx.srv(spec.flavour)
    cache = ctx.path("bfs-cache")
    succ = []
    local_seen = set()
    for action in spec.actions({"model": model, "hist": hist, "depth": len(hist)}):
        fsutil.restore(cache, snap)
        m2 = model.clone()
        h2 = hist + [label(action)]
        replay = {"engine": "seqx", "flavour": spec.flavour, "seed": seed, "history": h2, "actions": acts + [action]}
        rep_ = spec.apply(ctx, res, srv, cache, action, m2, replay)
        res["evals"] += 1
        V.outcome(res, "%s:%s|live-keys=%d|addresses=%d" % (action["t"], classify(rep_) if isinstance(rep_, dict) else "?", len(m2.index), len(m2.content)))
        snap2 = fsutil.snapshot(cache)
        key = fsutil.canon(snap2) + "|" + m2.canon()
        if key in local_seen:
            continue
        local_seen.add(key)
        spec.extra_state_check(ctx, res, cache, snap2, m2, replay)
        spec.observe(ctx, res, srv, cache, m2, replay)
        succ.append((key, snap2, m2, h2, seed, acts + [action]))
    fsutil.wipe(cache)
    res["succ"] = succ
    return res


def bfs(spec, tier, *, seeds=None, level, rule, technique, assumptions=(), seed=0, timeout=10.0, budget_s=None,
        explanation=None, finish=True):
    """seeds: list of (name, snapshot, Model). Returns exit code (or the aggregate when finish=False)."""
    global _spec
    _spec = spec
    t0 = time.time()
    base = run.base_dir()
    counter = mp.Value("i", 0)
    if seeds is None:
        seeds = [("empty", None, _new_model())]
    frontier = [(s[1], s[2], [], s[0], None, []) for s in seeds]
    for f in frontier:
        if not hasattr(f[1], "foreign"):
            f[1].foreign = {}
    seen = set(fsutil.canon(f[0]) + "|" + f[1].canon() for f in frontier)
    agg = V.new()
    merr = []
    capped = False
    depth_done = 0
    level_sizes = [len(frontier)]
    pool = mp.Pool(run.NPROC, initializer=run._init, initargs=(base, counter, tier, seed, timeout, _expand))
    try:
        for d in range(spec.depth):
            nxt = []
            for r in pool.imap_unordered(run._work, frontier, chunksize=max(1, min(8, len(frontier) // (4 * run.NPROC) or 1))):
                if "machinery_error" in r:
                    merr.append(r["machinery_error"])
                    continue
                agg["evals"] += r["evals"]
                agg["transitions"] += r["transitions"]
                agg["violations"].extend(r["violations"])
                for k, v in r["outcomes"].items():
                    agg["outcomes"][k] = agg["outcomes"].get(k, 0) + v
                for s in r["succ"]:
                    if s[0] not in seen:
                        seen.add(s[0])
                        nxt.append((s[1], s[2], s[3], s[4], None, s[5]))
                if budget_s and time.time() - t0 > budget_s:
                    capped = True
                    break
            if capped or merr:
                break
            depth_done = d + 1
            frontier = nxt
            level_sizes.append(len(nxt))
            if not frontier:
                break
    finally:
        pool.terminate()
        pool.join()
    agg["states"] = len(seen)
    agg["distinct"] = seen
    if frontier:
        agg["samples"] = [{"history": f[2], "seed": f[3]} for f in frontier[:3]]
    else:
        agg["samples"] = [{"note": "state space closed below the depth bound"}]
    agg["extra"] = {"depth_bound": spec.depth, "depth_completed": depth_done, "states_per_level": level_sizes,
                    "alphabet_size": len(list(spec.actions({"model": _new_model(), "hist": [], "depth": 0}))), "seeds": [s[0] for s in seeds]}
    if not finish:
        return agg, merr, capped, time.time() - t0
    return run.finish(spec.prop, tier, agg, merr, time.time() - t0, level=level, rule=rule, technique=technique,
                      assumptions=assumptions, seed=seed, capped=capped, jobs_done=depth_done, jobs_total=spec.depth,
                      exhaustive=not capped, explanation=explanation)


def _new_model():
    m = Model()
    m.foreign = {}
    return m


new_model = _new_model
