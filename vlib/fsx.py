"""Python side of fsx: building specs, running one controlled execution, trace normalisation, and the
stateless explorers (preemption-bounded schedules, crash points, faults)."""
import json
import os
import re
import subprocess

from . import fsutil, ops

EIO, ENOSPC, EACCES, EMFILE = 5, 28, 13, 24
ERRNO_NAMES = {5: "EIO", 28: "ENOSPC", 13: "EACCES", 24: "EMFILE"}
_TMP = re.compile(r"\.tmp[A-Za-z0-9]{6}")


class TracerError(Exception):
    pass


def actor(flavour, tag, prog_path, cwd=None):
    a = {"argv": [ops.opserver_bin(flavour), "actor", tag, "@" + prog_path]}
    if cwd:
        a["cwd"] = cwd
    return a


def run(spec, workdir, name="spec"):
    """Run one execution. Returns the report dict; raises TracerError on tracer failure."""
    for a in spec.get("actors", ()):
        argv = a.get("argv", ())
        if len(argv) >= 4 and argv[1] in ("actor", "threads") and str(argv[-1]).startswith("@"):
            try:
                with open(argv[-1][1:]) as fh:
                    ops.cover_program(os.path.basename(os.path.dirname(os.path.dirname(argv[0]))), json.load(fh))
            except (OSError, ValueError):
                pass
    sp = os.path.join(workdir, name + ".json")
    with open(sp, "w") as fh:
        json.dump(spec, fh)
    p = subprocess.run([ops.fsx_bin(), sp], stdout=subprocess.PIPE, stderr=subprocess.PIPE)
    if p.returncode != 0:
        raise TracerError("fsx exit %s: %s %s" % (p.returncode, p.stdout[-500:], p.stderr[-500:]))
    try:
        rep = json.loads(p.stdout)
    except ValueError:
        raise TracerError("fsx printed no report: %r" % p.stdout[-500:])
    if rep.get("status") == "tracer-error":
        raise TracerError(rep.get("error"))
    return rep


def confirmed(run_once):
    """A time-out (or a tracer hiccup) is only believed after it reproduced on a second, fresh execution: run_once()
    must restore the initial state itself. Returns the report of the last attempt; the first attempt's time-out is
    noted in rep["retried_after_timeout"]."""
    rep = run_once()
    if rep.get("status") == "timeout":
        rep2 = run_once()
        rep2["retried_after_timeout"] = True
        return rep2
    return rep


def replies(rep, i):
    """Parsed JSON replies of actor i."""
    out = []
    for line in rep["actors"][i]["stdout"].splitlines():
        line = line.strip()
        if line:
            try:
                out.append(json.loads(line))
            except ValueError:
                out.append({"garbled": line[:200]})
    return out


def thread_replies(rep):
    """threads mode: the single process prints one JSON array of per-thread reply lists."""
    txt = rep["actors"][0]["stdout"].strip()
    if not txt:
        return None
    try:
        return json.loads(txt.splitlines()[-1])
    except ValueError:
        return None


def norm_path(p, roots):
    if p is None:
        return None
    for i, r in enumerate(roots):
        if p == r or p.startswith(r + "/"):
            p = "<R%d>" % i + p[len(r):]
            break
    return _TMP.sub(".tmp*", p)


def trace(rep, roots):
    """Normalised step trace: [(actor, sys, path, len)]."""
    out = []
    for s in rep["steps"]:
        if s.get("step") is None:
            continue
        path = s["paths"][0] if s["paths"] else s.get("fd_path")
        out.append((s["actor"], s["sys"], norm_path(path, roots), s["len"]))
    return out


def sys_trace(rep, roots):
    """[(sys, normalised path)] of the executed steps (lengths left out: a torn/short length is rewritten)."""
    return [(t[1], t[2]) for t in trace(rep, roots)]


def assert_same_prefix(rep, probe_trace, upto, roots, what):
    """Owning nondeterminism: an execution that is driven by step indices learned from a probe run must perform the
    same system calls in the same order up to the point of interference; anything else is a machinery error."""
    got = [tuple(x) for x in sys_trace(rep, roots)[:upto]]
    want = [tuple(x) for x in probe_trace[:upto]]
    if got != want:
        raise TracerError("nondeterministic step sequence in %s: expected %r, got %r" % (what, want[-3:], got[-3:]))
    return len(got)


def preemptions(decisions, upto=None):
    n = 0
    for d in decisions[:upto]:
        r = d.get("running")
        if r is not None and r in d["enabled"] and d["chosen"] != r:
            n += 1
    return n


def children(decisions, prefix_len, bound):
    """Alternative schedule prefixes reachable from an execution whose first prefix_len choices were
    forced: one per (later decision point, other enabled actor) within the preemption bound."""
    out = []
    chosen = [d["chosen"] for d in decisions]
    cost = preemptions(decisions, prefix_len)
    for i in range(prefix_len, len(decisions)):
        d = decisions[i]
        r = d.get("running")
        for alt in d["enabled"]:
            if alt == d["chosen"]:
                continue
            c = cost + (1 if (r is not None and r in d["enabled"] and alt != r) else 0)
            if bound is not None and c > bound:
                continue
            out.append(chosen[:i] + [alt])
        if r is not None and r in d["enabled"] and d["chosen"] != r:
            cost += 1
    return out


_READ_SYS = {"stat", "lstat", "newfstatat", "statx", "access", "faccessat", "faccessat2", "readlink", "readlinkat", "read", "pread64", "readv",
             "preadv", "lseek", "fstat", "getdents64", "getdents"}
_LIST_SYS = {"getdents64", "getdents", "rmdir"}
_OPEN_SYS = {"open", "openat", "openat2", "creat"}
_FDWRITE_SYS = {"write", "pwrite64", "writev", "pwritev", "ftruncate", "fallocate", "fchmod", "fchown", "fsync", "fdatasync", "mmap", "fsetxattr", "futimens"}


def accesses(d, dir_exists):
    """Access summary of one file-system step: {"acc": [[path, "r"|"w"], ...], "lists": bool}, or None when the step
    cannot be classified (then it is dependent on everything). "w" = may change the existence, identity or content
    of what the path names; "r" = only depends on it. The classification is static per system call, with one
    state-dependent refinement: mkdir of a directory that exists at the node where the step is pending changes nothing
    (it fails with EEXIST whatever is swapped around it, unless the directory itself is removed - and that removal is a
    "w" on the same path, hence dependent)."""
    sysn = d.get("sys")
    paths = [x for x in (d.get("paths") or []) if x]
    fdp = d.get("fd_path")
    flags = d.get("flags")
    if sysn in _OPEN_SYS:
        if not paths or flags is None or flags < 0:
            return None
        mut = sysn == "creat" or (flags & 3) != 0 or (flags & 0o100) or (flags & 0o1000)
        return {"acc": [[paths[0], "w" if mut else "r"]], "lists": False}
    if sysn in ("mkdir", "mkdirat"):
        if not paths:
            return None
        return {"acc": [[paths[0], "r" if dir_exists(paths[0]) else "w"]], "lists": False}
    if sysn in _READ_SYS:
        ps = paths or ([fdp] if fdp else [])
        if not ps:
            return None
        return {"acc": [[x, "r"] for x in ps], "lists": sysn in _LIST_SYS}
    if sysn in _FDWRITE_SYS:
        if not fdp:
            return None
        return {"acc": [[fdp, "w"]], "lists": False}
    if sysn in ("link", "linkat") and len(paths) >= 2:
        return {"acc": [[paths[0], "r"], [paths[-1], "w"]], "lists": False}
    if sysn in ("symlink", "symlinkat") and paths:
        return {"acc": [[paths[-1], "w"]], "lists": False}
    ps = paths + ([fdp] if fdp else [])
    if not ps:
        return None
    # unlink, rmdir, rename*, truncate, chmod, ioctl(FICLONE*), anything unforeseen: a write of every path it names
    return {"acc": [[x, "w"] for x in ps], "lists": True if sysn not in ("unlink", "unlinkat", "rename", "renameat", "renameat2", "truncate", "chmod") else sysn == "rmdir"}


def dependent(a, b):
    """Conservative dependence of two file-system steps of DIFFERENT processes (they share nothing but the file system):
    same path with at least one write; or one writes (creates / removes / renames) a directory that is an ancestor of a
    path the other names; or one lists (or removes) an ancestor directory while the other writes below it."""
    if a is None or b is None:
        return True
    for x, ka in a["acc"]:
        for y, kb in b["acc"]:
            if x == y:
                if ka == "w" or kb == "w":
                    return True
            elif y.startswith(x.rstrip("/") + "/"):      # x is an ancestor of y
                if ka == "w" or (a["lists"] and kb == "w"):
                    return True
            elif x.startswith(y.rstrip("/") + "/"):      # y is an ancestor of x
                if kb == "w" or (b["lists"] and ka == "w"):
                    return True
    return False


def _norm_decisions(decisions, roots):
    """Paths made independent of the worker's scratch directory and of random temp-file names: '<R0>/rel', and
    '.tmpXXXXXX' -> '.tmp@<actor>' (an actor only ever touches its own temp files; operations that walk tmp/ - clear - are
    outside the scenarios that use the reduction)."""
    out = []
    for d in decisions:
        d2 = dict(d)
        a = d["chosen"]

        def n(p):
            if p is None:
                return None
            for i, r in enumerate(roots):
                if p == r or p.startswith(r + "/"):
                    p = "<R%d>" % i + p[len(r):]
                    break
            return _TMP.sub(".tmp@%s" % a, p)
        d2["paths"] = [n(x) for x in (d.get("paths") or [])]
        d2["fd_path"] = n(d.get("fd_path"))
        d2["path"] = n(d.get("path"))
        out.append(d2)
    return out


def _dir_events(steps_norm):
    events = []   # (index, +1/-1, path): directories created / removed by the executed steps
    for j, (d, ret) in enumerate(steps_norm):
        if ret == 0 and d.get("paths"):
            if d["sys"] in ("mkdir", "mkdirat"):
                events.append((j, 1, d["paths"][0]))
            elif d["sys"] in ("rmdir", "rename", "renameat", "renameat2"):
                events.append((j, -1, d["paths"][0]))
    return events


def _dir_exists_at(i, events, init_dirs):
    def f(path):
        ex = path in init_dirs
        for (j, sign, p_) in events:
            if j >= i:
                break
            if p_ == path:
                ex = sign > 0
        return ex
    return f


def _prepare(decisions, steps, roots, init_dirs_abs):
    if len(steps) != len(decisions) or any(s["actor"] != d["chosen"] or s["sys"] != d["sys"] for s, d in zip(steps, decisions)):
        raise TracerError("step log and decision log disagree")
    nd = _norm_decisions(decisions, roots)
    init_dirs = set()
    for p in init_dirs_abs:
        for i, r in enumerate(roots):
            if p == r or p.startswith(r + "/"):
                init_dirs.add("<R%d>" % i + p[len(r):])
    events = _dir_events([(d, s.get("ret")) for d, s in zip(nd, steps)])
    return nd, init_dirs, events


def canonical_trace(decisions, steps, roots, init_dirs_abs):
    """Lexicographic normal form of the executed interleaving under the dependence relation: two executions have the same
    form iff they differ only by swaps of adjacent independent steps. Used to validate the reduction against brute
    force (every class seen by brute force must be visited by the reduced search)."""
    nd, init_dirs, events = _prepare(decisions, steps, roots, init_dirs_abs)
    accs = [accesses(d, _dir_exists_at(i, events, init_dirs)) for i, d in enumerate(nd)]
    n = len(nd)
    idx_in_actor = []
    cnt = {}
    for d in nd:
        a = d["chosen"]
        idx_in_actor.append(cnt.get(a, 0))
        cnt[a] = cnt.get(a, 0) + 1
    remaining = list(range(n))
    out = []
    while remaining:
        best = None
        for pos, j in enumerate(remaining):
            # j is minimal iff no earlier remaining step is dependent on it
            if all(nd[k]["chosen"] != nd[j]["chosen"] and not dependent(accs[k], accs[j]) for k in remaining[:pos]):
                key = (nd[j]["chosen"], idx_in_actor[j])
                if best is None or key < best[0]:
                    best = (key, j)
        out.append(best[0])
        remaining.remove(best[1])
    return tuple(out)


def children_sleep(decisions, steps, prefix_len, sleep0, init_dirs_abs, roots):
    """Sleep-set partial-order reduction (Godefroid) for UNBOUNDED exploration of separate processes: returns
    [(schedule prefix, sleep set at the node after that prefix)]. Every Mazurkiewicz trace (class of interleavings that
    differ only in the order of adjacent independent steps) is still executed at least once; an interleaving is pruned
    only when it differs from an explored one by swaps of independent steps. steps = the executed step records (for the
    results of mkdir/rmdir/rename, from which the directories existing at each node are derived); init_dirs_abs = the
    directories existing before the execution. Sleep sets are lists of [actor, access summary of its pending step] with
    root-relative paths (a child execution may run in another worker's scratch directory)."""
    nd, init_dirs, events = _prepare(decisions, steps, roots, init_dirs_abs)
    chosen = [d["chosen"] for d in nd]

    def pending(i, b):
        for j in range(i, len(nd)):
            if nd[j]["chosen"] == b:
                return accesses(nd[j], _dir_exists_at(i, events, init_dirs))
        return None   # never ran again in this execution: unknown = dependent on everything

    sleep = {a: acc for a, acc in (sleep0 or [])}
    out = []
    for i in range(prefix_len, len(nd)):
        d = nd[i]
        c = d["chosen"]
        cacc = accesses(d, _dir_exists_at(i, events, init_dirs))
        done = {}
        if c not in sleep:
            done[c] = cacc
        for alt in d["enabled"]:
            if alt == c or alt in sleep:
                continue
            aacc = pending(i, alt)
            child_sleep = [[s_, acc] for s_, acc in list(sleep.items()) + list(done.items()) if s_ != alt and not dependent(acc, aacc)]
            out.append((chosen[:i] + [alt], child_sleep))
            done[alt] = aacc
        if c in sleep:
            break    # the rest of this execution repeats an explored trace; its non-sleeping alternatives were just queued
        sleep = {s_: acc for s_, acc in sleep.items() if not dependent(acc, cacc)}
    return out


def count_schedules_upper(n_steps_a, n_steps_b):
    from math import comb
    return comb(n_steps_a + n_steps_b, n_steps_a)


def applicable_errnos(step):
    """Error codes that the named system call can legitimately return (DESIGN 3.4 table)."""
    sysn = step["sys"]
    flags = step.get("flags", -1)
    errs = [EIO]
    if sysn in ("open", "openat", "openat2", "creat"):
        errs += [EACCES, EMFILE]
        if flags is not None and flags >= 0 and flags & 0o100:  # O_CREAT
            errs.append(ENOSPC)
    elif sysn in ("mkdir", "mkdirat", "symlink", "symlinkat", "link", "linkat", "rename", "renameat", "renameat2"):
        errs += [EACCES, ENOSPC]
    elif sysn in ("write", "pwrite64", "writev", "fallocate", "ftruncate"):
        errs += [ENOSPC]
    elif sysn in ("unlink", "unlinkat", "rmdir", "stat", "lstat", "newfstatat", "statx", "access", "faccessat", "faccessat2", "readlink", "readlinkat", "truncate"):
        errs += [EACCES]
    elif sysn in ("getdents64",):
        pass
    return errs


def torn_lengths(L, exhaustive_upto=4096):
    if L <= 0:
        return []
    if L <= exhaustive_upto:
        return list(range(0, L))
    cand = {0, 1, 4095, 4096, 4097, L // 2, L - 4096, L - 1}
    return sorted(t for t in cand if 0 <= t < L)


def short_lengths(L):
    if L <= 1:
        return []
    return sorted({1, L // 2, L - 1} - {0, L})
