"""Python side of fsx: building specs, running one controlled execution, trace normalisation, and the
stateless explorers (preemption-bounded schedules, crash points, faults)."""
import json
import os
import re
import subprocess

from . import fsutil, ops

EIO, ENOSPC, EACCES, EMFILE = 5, 28, 13, 24
ERRNO_NAMES = {5: "EIO", 28: "ENOSPC", 13: "EACCES", 24: "EMFILE"}
_TMP = re.compile(r"\.tmp[A-Za-z0-9]{6}")


class TracerError(Exception):
    pass


def actor(flavour, tag, prog_path, cwd=None):
    a = {"argv": [ops.opserver_bin(flavour), "actor", tag, "@" + prog_path]}
    if cwd:
        a["cwd"] = cwd
    return a


def run(spec, workdir, name="spec"):
    """Run one execution. Returns the report dict; raises TracerError on tracer failure."""
    for a in spec.get("actors", ()):
        argv = a.get("argv", ())
        if len(argv) >= 4 and argv[1] in ("actor", "threads") and str(argv[-1]).startswith("@"):
            try:
                with open(argv[-1][1:]) as fh:
                    ops.cover_program(os.path.basename(os.path.dirname(os.path.dirname(argv[0]))), json.load(fh))
            except (OSError, ValueError):
                pass
    sp = os.path.join(workdir, name + ".json")
    with open(sp, "w") as fh:
        json.dump(spec, fh)
    p = subprocess.run([ops.fsx_bin(), sp], stdout=subprocess.PIPE, stderr=subprocess.PIPE)
    if p.returncode != 0:
        raise TracerError("fsx exit %s: %s %s" % (p.returncode, p.stdout[-500:], p.stderr[-500:]))
    try:
        rep = json.loads(p.stdout)
    except ValueError:
        raise TracerError("fsx printed no report: %r" % p.stdout[-500:])
    if rep.get("status") == "tracer-error":
        raise TracerError(rep.get("error"))
    return rep


def confirmed(run_once):
    """A time-out (or a tracer hiccup) is only believed after it reproduced on a second, fresh execution: run_once()
    must restore the initial state itself. Returns the report of the last attempt; the first attempt's time-out is
    noted in rep["retried_after_timeout"]."""
    rep = run_once()
    if rep.get("status") == "timeout":
        rep2 = run_once()
        rep2["retried_after_timeout"] = True
        return rep2
    return rep


def replies(rep, i):
    """Parsed JSON replies of actor i."""
    out = []
    for line in rep["actors"][i]["stdout"].splitlines():
        line = line.strip()
        if line:
            try:
                out.append(json.loads(line))
            except ValueError:
                out.append({"garbled": line[:200]})
    return out


def thread_replies(rep):
    """threads mode: the single process prints one JSON array of per-thread reply lists."""
    txt = rep["actors"][0]["stdout"].strip()
    if not txt:
        return None
    try:
        return json.loads(txt.splitlines()[-1])
    except ValueError:
        return None


def norm_path(p, roots):
    if p is None:
        return None
    for i, r in enumerate(roots):
        if p == r or p.startswith(r + "/"):
            p = "<R%d>" % i + p[len(r):]
            break
    return _TMP.sub(".tmp*", p)


def trace(rep, roots):
    """Normalised step trace: [(actor, sys, path, len)]."""
    out = []
    for s in rep["steps"]:
        if s.get("step") is None:
            continue
        path = s["paths"][0] if s["paths"] else s.get("fd_path")
        out.append((s["actor"], s["sys"], norm_path(path, roots), s["len"]))
    return out


def sys_trace(rep, roots):
    """[(sys, normalised path)] of the executed steps (lengths left out: a torn/short length is rewritten)."""
    return [(t[1], t[2]) for t in trace(rep, roots)]


def assert_same_prefix(rep, probe_trace, upto, roots, what):
    """Owning nondeterminism: an execution that is driven by step indices learned from a probe run must perform the
    same system calls in the same order up to the point of interference; anything else is a machinery error."""
    got = [tuple(x) for x in sys_trace(rep, roots)[:upto]]
    want = [tuple(x) for x in probe_trace[:upto]]
    if got != want:
        raise TracerError("nondeterministic step sequence in %s: expected %r, got %r" % (what, want[-3:], got[-3:]))
    return len(got)


def preemptions(decisions, upto=None):
    n = 0
    for d in decisions[:upto]:
        r = d.get("running")
        if r is not None and r in d["enabled"] and d["chosen"] != r:
            n += 1
    return n


def children(decisions, prefix_len, bound):
    """Alternative schedule prefixes reachable from an execution whose first prefix_len choices were
    forced: one per (later decision point, other enabled actor) within the preemption bound."""
    out = []
    chosen = [d["chosen"] for d in decisions]
    cost = preemptions(decisions, prefix_len)
    for i in range(prefix_len, len(decisions)):
        d = decisions[i]
        r = d.get("running")
        for alt in d["enabled"]:
            if alt == d["chosen"]:
                continue
            c = cost + (1 if (r is not None and r in d["enabled"] and alt != r) else 0)
            if bound is not None and c > bound:
                continue
            out.append(chosen[:i] + [alt])
        if r is not None and r in d["enabled"] and d["chosen"] != r:
            cost += 1
    return out


def count_schedules_upper(n_steps_a, n_steps_b):
    from math import comb
    return comb(n_steps_a + n_steps_b, n_steps_a)


def applicable_errnos(step):
    """Error codes that the named system call can legitimately return (DESIGN 3.4 table)."""
    sysn = step["sys"]
    flags = step.get("flags", -1)
    errs = [EIO]
    if sysn in ("open", "openat", "openat2", "creat"):
        errs += [EACCES, EMFILE]
        if flags is not None and flags >= 0 and flags & 0o100:  # O_CREAT
            errs.append(ENOSPC)
    elif sysn in ("mkdir", "mkdirat", "symlink", "symlinkat", "link", "linkat", "rename", "renameat", "renameat2"):
        errs += [EACCES, ENOSPC]
    elif sysn in ("write", "pwrite64", "writev", "fallocate", "ftruncate"):
        errs += [ENOSPC]
    elif sysn in ("unlink", "unlinkat", "rmdir", "stat", "lstat", "newfstatat", "statx", "access", "faccessat", "faccessat2", "readlink", "readlinkat", "truncate"):
        errs += [EACCES]
    elif sysn in ("getdents64",):
        pass
    return errs


def torn_lengths(L, exhaustive_upto=4096):
    if L <= 0:
        return []
    if L <= exhaustive_upto:
        return list(range(0, L))
    cand = {0, 1, 4095, 4096, 4097, L // 2, L - 4096, L - 1}
    return sorted(t for t in cand if 0 <= t < L)


def short_lengths(L):
    if L <= 1:
        return []
    return sorted({1, L // 2, L - 1} - {0, L})
