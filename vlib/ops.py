"""Client side of the opserver: building the three flavours and talking to them."""
import json
import os
import select
import signal
import subprocess
import sys
import time

VERIF = os.path.dirname(os.path.dirname(os.path.abspath(__file__)))
REPO = os.environ.get("VERIF_REPO", "/repo")
TARGET = os.environ.get("VERIF_TARGET", os.path.join(VERIF, "target"))
FLAVOURS = ("sync", "astd", "tok")
FEATURE = {"sync": None, "astd": "astd", "tok": "tok"}


def opserver_bin(flavour):
    return os.path.join(TARGET, flavour, "release", "opserver")


def fsx_bin():
    return os.path.join(TARGET, "fsx", "release", "fsx")


class BuildError(Exception):
    pass


def _cargo(args, cwd):
    env = dict(os.environ)
    env["CARGO_NET_OFFLINE"] = "true"
    env.pop("RUSTFLAGS", None)
    p = subprocess.run(["cargo"] + args, cwd=cwd, env=env, stdout=subprocess.PIPE, stderr=subprocess.STDOUT, text=True)
    if p.returncode != 0:
        raise BuildError(p.stdout[-6000:])
    return p.stdout


def build(flavours=FLAVOURS, fsx=True, quiet=True):
    """(Re)build the harness binaries from /repo's current working tree. Incremental."""
    import shutil
    crate = os.path.join(VERIF, "harness", "opserver")
    if REPO != "/repo":
        # testing a scratch copy of the repository (seeded changes): build a copy of the harness crate that
        # depends on that copy; registered checks never take this path
        src = crate
        crate = os.path.join(TARGET, "opserver-crate")
        os.makedirs(os.path.join(crate, "src"), exist_ok=True)
        shutil.copy(os.path.join(src, "src", "main.rs"), os.path.join(crate, "src", "main.rs"))
        with open(os.path.join(src, "Cargo.toml")) as fh:
            toml = fh.read().replace('path = "/repo"', 'path = "%s"' % REPO)
        with open(os.path.join(crate, "Cargo.toml"), "w") as fh:
            fh.write(toml)
    lock = os.path.join(crate, "Cargo.lock")
    if not os.path.exists(lock):
        shutil.copy(os.path.join("/repo", "Cargo.lock"), lock)
    procs = []
    env = dict(os.environ)
    env["CARGO_NET_OFFLINE"] = "true"
    env.pop("RUSTFLAGS", None)
    for f in flavours:
        args = ["cargo", "build", "--release", "--offline", "--target-dir", os.path.join(TARGET, f)]
        if FEATURE[f]:
            args += ["--features", FEATURE[f]]
        procs.append((f, subprocess.Popen(args, cwd=crate, env=env, stdout=subprocess.PIPE, stderr=subprocess.STDOUT, text=True)))
    if fsx:
        fcrate = os.path.join(VERIF, "engine", "fsx")
        args = ["cargo", "build", "--release", "--offline", "--target-dir", os.path.join(TARGET, "fsx")]
        procs.append(("fsx", subprocess.Popen(args, cwd=fcrate, env=env, stdout=subprocess.PIPE, stderr=subprocess.STDOUT, text=True)))
    errs = []
    for f, p in procs:
        out, _ = p.communicate()
        if p.returncode != 0:
            errs.append("build of %s failed:\n%s" % (f, out[-6000:]))
    if errs:
        raise BuildError("\n".join(errs))


class Hang(Exception):
    pass


class Died(Exception):
    pass


def _cpu_seconds(pid):
    """Processor time (user + system, all threads) the process has consumed so far."""
    try:
        with open("/proc/%d/stat" % pid) as fh:
            f = fh.read().rsplit(")", 1)[1].split()
        return (int(f[11]) + int(f[12])) / float(os.sysconf("SC_CLK_TCK"))
    except (OSError, ValueError, IndexError):
        return 0.0


API_COVER = set()   # "<flavour>:<op>" of every request sent to the real library in this worker (reported in the evidence)


def cover_program(flavour, prog):
    """Record the operations of an actor program (fsx executions do not go through OpServer.call)."""
    if isinstance(prog, dict):
        if "op" in prog:
            API_COVER.add("%s:%s" % (flavour, prog["op"]))
    elif isinstance(prog, (list, tuple)):
        for x in prog:
            cover_program(flavour, x)


class OpServer:
    """One long-lived opserver process (JSON lines)."""

    def __init__(self, flavour, cwd=None, timeout=10.0):
        self.flavour = flavour
        self.cwd = cwd
        self.timeout = timeout
        self.p = None
        self.calls = 0
        self.start()

    def start(self):
        self.p = subprocess.Popen([opserver_bin(self.flavour), "serve"], stdin=subprocess.PIPE, stdout=subprocess.PIPE,
                                  stderr=subprocess.DEVNULL, cwd=self.cwd, bufsize=0)
        self.buf = b""

    def close(self):
        if self.p is not None:
            try:
                self.p.kill()
            except Exception:
                pass
            try:
                self.p.wait(timeout=2)
            except Exception:
                pass
            for f in (self.p.stdin, self.p.stdout):
                try:
                    f.close()
                except Exception:
                    pass
            self.p = None

    def restart(self):
        self.close()
        self.start()

    def call(self, req, timeout=None):
        """Returns the reply dict. A hang gives {"hang": True} (process is restarted: all sessions are
        lost); a death gives {"died": <status>}."""
        if self.p is None:
            self.start()
        self.calls += 1
        API_COVER.add("%s:%s" % (self.flavour, req.get("op")))
        line = (json.dumps(req, ensure_ascii=True) + "\n").encode()
        try:
            self.p.stdin.write(line)
            self.p.stdin.flush()
        except (BrokenPipeError, OSError):
            st = self.p.poll()
            self.restart()
            return {"died": st}
        t_lim = (timeout or self.timeout)
        t_start = time.time()
        cpu_start = _cpu_seconds(self.p.pid)
        deadline = t_start + t_lim
        fd = self.p.stdout.fileno()
        while b"\n" not in self.buf:
            left = deadline - time.time()
            if left <= 0:
                # wall-clock time alone is not a liveness verdict on a loaded machine: a call that has used little processor
                # time so far was starved (or is blocked) and gets up to six times the limit; one that has burnt its share is
                # spinning and is reported at once
                used = _cpu_seconds(self.p.pid) - cpu_start
                if used < 0.5 * t_lim and time.time() - t_start < 6 * t_lim:
                    deadline = time.time() + min(t_lim, 6 * t_lim - (time.time() - t_start))
                    continue
                self.restart()
                return {"hang": True}
            r, _, _ = select.select([fd], [], [], left)
            if not r:
                continue
            chunk = os.read(fd, 1 << 20)
            if not chunk:
                st = self.p.wait()
                self.restart()
                return {"died": st}
            self.buf += chunk
        i = self.buf.index(b"\n")
        line, self.buf = self.buf[:i], self.buf[i + 1:]
        return json.loads(line)

    def __call__(self, op, **kw):
        kw["op"] = op
        return self.call(kw)


def is_async(flavour):
    return flavour in ("astd", "tok")


def opname(base, flavour_is_sync):
    """Map a base operation name to the library name of the sync or async variant."""
    if flavour_is_sync:
        special = {"write_with_algo": "write_sync_with_algo", "write_hash_with_algo": "write_hash_sync_with_algo",
                   "remove_opts": "remove_opts_sync", "index_insert": "index_insert", "index_find": "index_find",
                   "index_delete": "index_delete"}
        return special.get(base, base + "_sync")
    special = {"index_insert": "index_insert_async", "index_find": "index_find_async", "index_delete": "index_delete_async"}
    return special.get(base, base)
