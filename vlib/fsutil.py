"""Directory snapshots: take, restore, canonicalise."""
import hashlib
import os
import shutil
import stat

from . import ref

import time as _time
# Record times at or above this value were produced by the library's now() during this run; like tombstone
# times they are never read back for a decision, so the state key abstracts them (DESIGN 3.3).
NOW_FLOOR = int(_time.time() * 1000) - 5000


def snapshot(root):
    """{relpath: ('d',) | ('f', bytes) | ('l', target) | ('o', mode)}; the root itself is not included.
    A missing root gives None."""
    if not os.path.lexists(root):
        return None
    out = {}
    stack = [""]
    while stack:
        rel = stack.pop()
        full = os.path.join(root, rel) if rel else root
        try:
            names = os.listdir(full)
        except NotADirectoryError:
            return {"": _entry(full)}
        for n in names:
            r = os.path.join(rel, n) if rel else n
            f = os.path.join(root, r)
            e = _entry(f)
            out[r] = e
            if e[0] == "d":
                stack.append(r)
    return out


def _entry(f):
    st = os.lstat(f)
    if stat.S_ISDIR(st.st_mode):
        return ("d",)
    if stat.S_ISLNK(st.st_mode):
        return ("l", os.readlink(f))
    if stat.S_ISREG(st.st_mode):
        with open(f, "rb") as fh:
            return ("f", fh.read())
    return ("o", st.st_mode)


def restore(root, snap):
    """Make root hold exactly snap (root is wiped first)."""
    wipe(root)
    if snap is None:
        return
    os.makedirs(root, exist_ok=True)
    for rel in sorted(snap):
        e = snap[rel]
        f = os.path.join(root, rel)
        if e[0] == "d":
            os.makedirs(f, exist_ok=True)
        elif e[0] == "f":
            os.makedirs(os.path.dirname(f), exist_ok=True)
            with open(f, "wb") as fh:
                fh.write(e[1])
        elif e[0] == "l":
            os.makedirs(os.path.dirname(f), exist_ok=True)
            os.symlink(e[1], f)


def wipe(path):
    if os.path.islink(path) or os.path.isfile(path):
        os.unlink(path)
    elif os.path.isdir(path):
        # directories may have been made read-only by a scenario
        for d, dirs, files in os.walk(path):
            try:
                os.chmod(d, 0o700)
            except OSError:
                pass
        shutil.rmtree(path, ignore_errors=True)


def canon(snap):
    """Canonical, hashable form of a snapshot for state de-duplication.

    Kept exactly: every content file's bytes, every path, every undecodable bucket fragment.
    Abstracted: the time of tombstone records (written from now(), never returned by any call) and the
    random names of temp files (replaced by their rank)."""
    if snap is None:
        return "ABSENT"
    h = hashlib.blake2b(digest_size=20)
    tmpn = 0
    for rel in sorted(snap):
        e = snap[rel]
        name = rel
        if rel.startswith("tmp/"):
            name = "tmp/#%d" % tmpn
            tmpn += 1
        h.update(name.encode("utf-8", "surrogateescape"))
        h.update(b"\0" + e[0].encode() + b"\0")
        if e[0] == "f":
            if rel.startswith(ref.INDEX_DIR + "/"):
                for (a, b, rec) in ref.split_bucket(e[1]):
                    if rec is not None and rec["integrity"] is None:
                        h.update(b"T" + repr((rec["key"], rec["size"], rec["metadata"], rec["raw_metadata"])).encode())
                    elif rec is not None and NOW_FLOOR <= rec["time"] < NOW_FLOOR + 10 ** 9:
                        h.update(b"N" + repr((rec["key"], rec["integrity"], rec["size"], rec["metadata"], rec["raw_metadata"])).encode())
                    else:
                        h.update(b"L" + e[1][a:b])
                    h.update(b"\n")
            else:
                h.update(hashlib.blake2b(e[1], digest_size=20).digest())
        elif e[0] == "l":
            h.update(e[1].encode("utf-8", "surrogateescape"))
        h.update(b"\1")
    return h.hexdigest()


def files_under(snap, prefix):
    return {r: e for r, e in (snap or {}).items() if r.startswith(prefix + "/") and e[0] != "d"}


def describe(snap, maxbytes=80):
    """Human-readable rendering for replay files."""
    if snap is None:
        return None
    out = {}
    for rel in sorted(snap):
        e = snap[rel]
        if e[0] == "f":
            b = e[1]
            out[rel] = {"len": len(b), "hex": b[:maxbytes].hex(), "sha256": hashlib.sha256(b).hexdigest()}
        elif e[0] == "l":
            out[rel] = {"symlink": e[1]}
        elif e[0] == "d":
            out[rel] = "dir"
        else:
            out[rel] = "other"
    return out


def to_jsonable(snap):
    if snap is None:
        return None
    out = {}
    for rel, e in snap.items():
        if e[0] == "f":
            out[rel] = ["f", e[1].hex()]
        else:
            out[rel] = list(e)
    return out


def from_jsonable(j):
    if j is None:
        return None
    out = {}
    for rel, e in j.items():
        if e[0] == "f":
            out[rel] = ("f", bytes.fromhex(e[1]))
        else:
            out[rel] = tuple(e)
    return out
