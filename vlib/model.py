"""The boring reference model: a dictionary index and a dictionary content store, plus the observation
vector taken through the real API and its comparison with the model."""
import copy
import os

from . import fsutil, ref
from .ops import is_async
from .run import V, classify


class Model:
    def __init__(self):
        self.index = {}     # key -> entry dict(integrity, size, time, metadata, raw_metadata)
        self.content = {}   # sri string -> bytes
        self.damaged = set()  # addresses whose content file no longer holds the stored bytes
        self.foreign = {}   # (foreign key, host key) -> entry: valid records sitting in another key's bucket

    def clone(self):
        m = Model()
        m.index = copy.deepcopy(self.index)
        m.content = dict(self.content)
        m.foreign = copy.deepcopy(self.foreign)
        m.damaged = set(self.damaged)
        if hasattr(self, "has_index"):
            m.has_index = self.has_index
        return m

    def canon(self):
        return repr((sorted((k, _freeze(v)) for k, v in self.index.items()), sorted((s, len(b), ref.sha256hex(b)) for s, b in self.content.items()),
                     sorted((k, _freeze(e)) for k, e in self.foreign.items()), sorted(self.damaged)))

    # ---- operations
    def write(self, key, sri, data, *, size, time, metadata=None, raw_metadata=None):
        self.content[sri] = data
        self.damaged.discard(sri)  # a re-write replaces the file atomically
        if key is not None:
            self.index[key] = {"integrity": sri, "size": size, "time": time, "metadata": metadata, "raw_metadata": raw_metadata}

    def insert(self, key, sri, *, size, time, metadata=None, raw_metadata=None):
        self.index[key] = {"integrity": sri, "size": size, "time": time, "metadata": metadata, "raw_metadata": raw_metadata}

    def remove(self, key):
        self.index.pop(key, None)

    def remove_hash(self, sri):
        self.damaged.discard(sri)
        return self.content.pop(sri, None) is not None

    def remove_fully(self, key):
        e = self.index.get(key)
        if e is not None:
            self.damaged.discard(e["integrity"])
            self.content.pop(e["integrity"], None)   # an already missing content file counts as removed
            self.index.pop(key, None)
        return True

    def clear(self):
        self.index = {}
        self.content = {}
        self.damaged = set()
        self.foreign = {}


def _freeze(v):
    if isinstance(v, tuple) and len(v) == 2 and all(isinstance(x, int) for x in v):
        return "NOW"  # a wall-clock interval: abstracted like the time it brackets
    if isinstance(v, dict):
        return tuple(sorted((k, _freeze(x)) for k, x in v.items()))
    if isinstance(v, list):
        return tuple(_freeze(x) for x in v)
    return v


# ----------------------------------------------------------------------------- observations

LOOKUP_SYNC = ["metadata_sync", "index_find", "read_sync", "stream_sync"]
LOOKUP_ASYNC = ["metadata", "index_find_async", "read", "stream"]


def entry_of_reply(m):
    """Normalise a metadata reply into a model-comparable entry."""
    if m is None:
        return None
    raw = m.get("raw_metadata")
    return {"key": m["key"], "integrity": m["integrity"], "size": m["size"], "time": int(m["time"]), "metadata": m["metadata"],
            "raw_metadata": None if raw is None else bytes.fromhex(raw)}


def entry_matches(got, want, key):
    """got: normalised reply entry; want: model entry. time may be an (lo, hi) interval in the model."""
    if got is None or want is None:
        return got is None and want is None
    if got["key"] != key or got["integrity"] != want["integrity"] or got["size"] != want["size"]:
        return False
    t = want["time"]
    if isinstance(t, tuple):
        if not (t[0] <= got["time"] <= t[1]):
            return False
    elif got["time"] != t:
        return False
    if not ref.json_equal(got["metadata"], want["metadata"]):
        return False
    return got["raw_metadata"] == want["raw_metadata"]


def observe_and_check(ctx, res, srv, flavour, cache, model, keys, addrs, *, sig_prefix, replay, list_check=True,
                      lookups=None, check_readonly=True, sides=None):
    """Take the observation vector through every lookup entry point of the flavour and compare it with
    the model. Returns True if everything agreed."""
    ok = True
    before = fsutil.canon(fsutil.snapshot(cache)) if check_readonly else None
    if sides is None:
        sides = ["s", "a"] if is_async(flavour) else ["s"]
    names = []
    if "s" in sides:
        names += LOOKUP_SYNC
    if "a" in sides:
        names += LOOKUP_ASYNC
    if lookups is not None:
        names = [n for n in names if n in lookups]

    def bad(what, sig, extra):
        nonlocal ok
        ok = False
        r = dict(replay)
        r.update(extra)
        V.violation(res, "%s:%s" % (sig_prefix, sig), what, r)

    for key in keys:
        want = model.index.get(key)
        for name in names:
            res["transitions"] += 1
            if name in ("metadata_sync", "metadata", "index_find", "index_find_async"):
                rep = srv.call({"op": name, "cache": cache, "key": key})
                if "ok" not in rep:
                    bad("%s(%r) failed: %s" % (name, key, _short(rep)), "lookup:%s:%s" % (name, classify(rep)), {"obs": name, "key": key, "reply": rep})
                    continue
                got = entry_of_reply(rep["ok"])
                if not entry_matches(got, want, key):
                    bad("%s(%r) returned %s, model says %s" % (name, key, _short(got), _short(want)),
                        "lookup:%s:%s" % (name, _mismatch_kind(got, want)), {"obs": name, "key": key, "reply": rep, "expected": want})
            else:
                if name in ("read_sync", "read"):
                    rep = srv.call({"op": name, "cache": cache, "key": key})
                    d = rep.get("ok")
                else:
                    from . import wr
                    rep, d = wr.do_read(srv, cache, name, key=key, buf=512)
                _check_data(bad, name, key, rep, d, want, model)
    for sri in addrs:
        data = model.content.get(sri)
        for name in [n for n in (["read_hash_sync", "exists_sync"] if "s" in sides else []) + (["read_hash", "exists"] if "a" in sides else [])]:
            res["transitions"] += 1
            rep = srv.call({"op": name, "cache": cache, "sri": sri})
            if name.startswith("exists"):
                if rep.get("ok") is not (data is not None):
                    bad("%s(%s) = %s, model says %s" % (name, sri, _short(rep), data is not None), "addr:%s:wrong" % name,
                        {"obs": name, "sri": sri, "reply": rep})
            elif sri in model.damaged:
                if "err" not in rep:
                    bad("%s of a damaged content file returned %s" % (name, _short(rep)), "addr:%s:damaged-but-%s" % (name, classify(rep)),
                        {"obs": name, "sri": sri, "reply": rep})
            else:
                if data is None:
                    if "err" not in rep:
                        bad("%s of an absent address returned %s" % (name, _short(rep)), "addr:%s:absent-but-%s" % (name, classify(rep)),
                            {"obs": name, "sri": sri, "reply": rep})
                else:
                    from . import wr
                    if "ok" not in rep or not wr.data_matches(rep["ok"], data):
                        bad("%s(%s) gave %s, expected %d bytes" % (name, sri, _short(rep), len(data)), "addr:%s:%s" % (name, classify(rep) if "ok" not in rep else "wrong-bytes"),
                            {"obs": name, "sri": sri, "reply": rep})
    if list_check:
        res["transitions"] += 1
        rep = srv.call({"op": "list_sync", "cache": cache})
        check_listing(bad, rep, model, cache, srv)
    if check_readonly:
        after = fsutil.canon(fsutil.snapshot(cache))
        if after != before:
            bad("read-only observations changed the cache directory", "observations-mutate", {})
    return ok


def _mismatch_kind(got, want):
    if got is None:
        return "missing"
    if want is None:
        return "resurfaced-or-phantom"
    for f in ("integrity", "size", "time", "metadata", "raw_metadata"):
        w = want[f]
        g = got[f]
        if f == "time" and isinstance(w, tuple):
            if not (w[0] <= g <= w[1]):
                return "wrong-time"
        elif f == "metadata":
            if not ref.json_equal(g, w):
                return "wrong-metadata"
        elif g != w:
            return "wrong-" + f
    return "wrong-key"


def _check_data(bad, name, key, rep, d, want, model):
    from . import wr
    if want is None:
        if not ("err" in rep and rep["err"].get("variant") == "EntryNotFound"):
            bad("%s(%r) of an absent key gave %s" % (name, key, _short(rep)), "lookup:%s:absent-but-%s" % (name, classify(rep)),
                {"obs": name, "key": key, "reply": rep})
        return
    data = model.content.get(want["integrity"])
    if want["integrity"] in model.damaged:
        if "err" not in rep:
            bad("%s(%r): content file is damaged, reply %s" % (name, key, _short(rep)), "lookup:%s:damaged-but-%s" % (name, classify(rep)),
                {"obs": name, "key": key, "reply": rep})
        return
    if data is None:
        if "err" not in rep:
            bad("%s(%r): content was removed, reply %s" % (name, key, _short(rep)), "lookup:%s:content-absent-but-%s" % (name, classify(rep)),
                {"obs": name, "key": key, "reply": rep})
        return
    if d is None or not wr.data_matches(d, data):
        bad("%s(%r) gave %s, expected %d bytes" % (name, key, _short(rep), len(data)), "lookup:%s:%s" % (name, classify(rep) if d is None else "wrong-bytes"),
            {"obs": name, "key": key, "reply": rep})


def check_listing(bad, rep, model, cache, srv=None, f7_ok=None):
    if "ok" not in rep:
        bad("list_sync failed: %s" % _short(rep), "list:%s" % classify(rep), {"obs": "list_sync", "reply": rep})
        return
    items = rep["ok"]
    errs = [i for i in items if "err" in i]
    oks = [entry_of_reply(i["ok"]) for i in items if "ok" in i]
    if errs:
        # F7: a cache without index-v5 lists as one NotFound error
        no_index_dir = (not os.path.exists(os.path.join(cache, ref.INDEX_DIR))) if f7_ok is None else f7_ok
        if not (len(errs) == 1 and not oks and errs[0]["err"].get("io_kind") == "NotFound" and no_index_dir and not model.index):
            bad("list_sync yielded error items: %s" % _short(errs), "list:error-items", {"obs": "list_sync", "reply": rep})
            return
    seen = {}
    for e in oks:
        fcands = [fe for (fk, _), fe in model.foreign.items() if fk == e["key"]]
        if fcands:
            # a record for this key sits in another key's bucket (not a state the library produces):
            # the walk lists it although no lookup finds it there. Tolerated, but every listed entry
            # must be one of the two records verbatim.
            cands = fcands + ([model.index[e["key"]]] if e["key"] in model.index else [])
            if not any(entry_matches(e, c, e["key"]) for c in cands):
                bad("list_sync entry for foreign key %r matches no record" % e["key"], "list:foreign-mismatch", {"obs": "list_sync", "reply": rep})
                return
            continue
        if e["key"] in seen:
            bad("list_sync yielded key %r twice" % e["key"], "list:duplicate", {"obs": "list_sync", "reply": rep})
            return
        seen[e["key"]] = e
    for k, e in seen.items():
        want = model.index.get(k)
        if want is None:
            bad("list_sync yielded %r which is not live in the model" % k, "list:phantom", {"obs": "list_sync", "reply": rep})
            return
        if not entry_matches(e, want, k):
            bad("list_sync entry for %r is %s, model says %s" % (k, _short(e), _short(want)), "list:%s" % _mismatch_kind(e, want),
                {"obs": "list_sync", "reply": rep, "expected": want})
            return
    for k in model.index:
        if k not in seen and not any(fk == k for (fk, _) in model.foreign):
            bad("list_sync misses live key %r" % k, "list:missing", {"obs": "list_sync", "reply": rep})
            return


def _short(x):
    s = repr(x)
    return s if len(s) < 300 else s[:300] + "..."
