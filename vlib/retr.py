"""Retrieval entry points (whole reads, streamed reads, extractions) behind one calling convention."""
import os

from . import fsutil, ref, wr
from .damage import read_dest
from .ops import is_async

SYNC_CHECKED = [("read_sync", "key", "read"), ("read_hash_sync", "sri", "read"), ("stream_sync", "key", "stream"), ("stream_hash_sync", "sri", "stream"),
                ("copy_sync", "key", "copy"), ("copy_hash_sync", "sri", "copy"), ("hard_link_sync", "key", "link"), ("hard_link_hash_sync", "sri", "link"),
                ("reflink_sync", "key", "reflink"), ("reflink_hash_sync", "sri", "reflink")]
ASYNC_CHECKED = [("read", "key", "read"), ("read_hash", "sri", "read"), ("stream", "key", "stream"), ("stream_hash", "sri", "stream"),
                 ("copy", "key", "copy"), ("copy_hash", "sri", "copy"), ("hard_link", "key", "link"), ("reflink", "key", "reflink"),
                 ("reflink_hash", "sri", "reflink")]
SYNC_UNCHECKED = [("copy_unchecked_sync", "key", "copy"), ("copy_hash_unchecked_sync", "sri", "copy"), ("hard_link_unchecked_sync", "key", "link"),
                  ("hard_link_hash_unchecked_sync", "sri", "link"), ("reflink_unchecked_sync", "key", "reflink"), ("reflink_hash_unchecked_sync", "sri", "reflink")]
ASYNC_UNCHECKED = [("copy_unchecked", "key", "copy"), ("copy_hash_unchecked", "sri", "copy"), ("reflink_unchecked", "key", "reflink")]


def checked(flavour, sides=None):
    out = list(SYNC_CHECKED) if sides is None or "s" in sides else []
    if is_async(flavour) and (sides is None or "a" in sides):
        out += ASYNC_CHECKED
    return out


def unchecked(flavour, sides=None):
    out = list(SYNC_UNCHECKED) if sides is None or "s" in sides else []
    if is_async(flavour) and (sides is None or "a" in sides):
        out += ASYNC_UNCHECKED
    return out


def retrieve(srv, cache, name, kind, *, key, sri, dest=None, buf=1024):
    """Returns (reply, delivered) where delivered is None (nothing handed out) or a dict(len, sha256) of
    the bytes the caller would now hold (returned vector, streamed bytes after a successful check, or the
    bytes found at the destination after a successful extraction)."""
    if kind == "read":
        rep = srv.call({"op": name, "cache": cache, "key": key, "sri": sri})
        return rep, rep.get("ok")
    if kind == "stream":
        rep, d = wr.do_read(srv, cache, name, key=key, sri=sri, buf=buf)
        return rep, d
    rep = srv.call({"op": name, "cache": cache, "key": key, "sri": sri, "to": dest})
    if "ok" in rep:
        b = read_dest(dest)
        if b is None:
            return rep, {"len": -1, "sha256": "destination-unreadable"}
        return rep, {"len": len(b), "sha256": ref.sha256hex(b), "count": rep["ok"]}
    return rep, None
