"""Write / read helpers over the opserver protocol: every write entry point and every read entry point."""
from . import ref
from .ops import is_async


def gen_spec(n, tag, off=0, length=None):
    g = [n, tag, off]
    if length is not None:
        g.append(length)
    return {"gen": g}


def chunk_specs(n, tag, chunks):
    out = []
    off = 0
    for c in chunks:
        out.append(gen_spec(n, tag, off, c))
        off += c
    return out


# Write entry points. side: 's' (the _sync API) or 'a' (the async API of the server's flavour).
# Each is (name, keyed, takes_algo, streamed)
WRITE_ENTRIES = [
    ("oneshot", True, False, False),        # write / write_sync
    ("oneshot_algo", True, True, False),    # write_with_algo / write_sync_with_algo
    ("hash", False, False, False),          # write_hash / write_hash_sync
    ("hash_algo", False, True, False),      # write_hash_with_algo / write_hash_sync_with_algo
    ("create", True, False, True),          # Writer::create / SyncWriter::create
    ("create_algo", True, True, True),      # *::create_with_algo
    ("open", True, True, True),             # WriteOpts::open / open_sync
    ("open_hash", False, True, True),       # WriteOpts::open_hash / open_hash_sync
]


def do_write(srv, cache, *, side, entry, key=None, algo="sha256", n=0, tag=0, chunks=None, opts=None,
             write_op="w_write_all", flush=False, flush_each=False):
    """Perform one complete write. Returns (final_reply, trace) where final_reply is the reply that
    carries the integrity (or the first failing reply) and trace the list of (request, reply)."""
    sync = side == "s"
    trace = []

    def call(req):
        rep = srv.call(req)
        trace.append((req, rep))
        return rep

    data = gen_spec(n, tag)
    if entry == "oneshot":
        return call({"op": "write_sync" if sync else "write", "cache": cache, "key": key, "data": data}), trace
    if entry == "oneshot_algo":
        return call({"op": "write_sync_with_algo" if sync else "write_with_algo", "algo": algo, "cache": cache, "key": key,
                     "data": data}), trace
    if entry == "hash":
        return call({"op": "write_hash_sync" if sync else "write_hash", "cache": cache, "data": data}), trace
    if entry == "hash_algo":
        return call({"op": "write_hash_sync_with_algo" if sync else "write_hash_with_algo", "algo": algo, "cache": cache,
                     "data": data}), trace
    pre = "sw_" if sync else "aw_"
    if entry == "create":
        rep = call({"op": pre + "create", "cache": cache, "key": key})
    elif entry == "create_algo":
        rep = call({"op": pre + "create_with_algo", "algo": algo, "cache": cache, "key": key})
    elif entry in ("open", "open_hash"):
        o = dict(opts or {})
        if algo is not None and "algorithm" not in o:
            o["algorithm"] = algo
        req = {"op": pre + "open", "cache": cache, "opts": o}
        if entry == "open":
            req["key"] = key
        rep = call(req)
    else:
        raise ValueError(entry)
    if "ok" not in rep:
        return rep, trace
    h = rep["ok"]["h"]
    if chunks is None:
        chunks = [n]
    for spec in chunk_specs(n, tag, chunks):
        if write_op == "w_write":
            # emulate write_all on top of single write calls so that short counts are visible
            g = spec["gen"]
            off, left = g[2], g[3]
            guard = 0
            while left > 0:
                rep = call({"op": "w_write", "h": h, "data": gen_spec(n, tag, off, left)})
                if "ok" not in rep:
                    _drop(srv, h, rep)
                    return rep, trace
                w = rep["ok"]
                if w == 0:
                    guard += 1
                    if guard > 3:
                        _drop(srv, h, rep)
                        return {"err": {"variant": "WriteZero"}}, trace
                off += w
                left -= w
            if g[3] == 0:
                rep = call({"op": "w_write", "h": h, "data": spec})
                if "ok" not in rep:
                    _drop(srv, h, rep)
                    return rep, trace
        else:
            rep = call({"op": write_op, "h": h, "data": spec})
            if "ok" not in rep:
                _drop(srv, h, rep)
                return rep, trace
        if flush_each:
            # a flush after every chunk (legal at any point of a stream)
            rep = call({"op": "w_flush", "h": h})
            if "ok" not in rep:
                _drop(srv, h, rep)
                return rep, trace
    if flush:
        rep = call({"op": "w_flush", "h": h})
        if "ok" not in rep:
            _drop(srv, h, rep)
            return rep, trace
    return call({"op": "w_commit", "h": h}), trace


def _drop(srv, h, rep):
    if "hang" in rep or "died" in rep:
        return
    srv.call({"op": "w_drop", "h": h})


def effective_algo(entry, algo):
    takes = dict((e[0], e[2]) for e in WRITE_ENTRIES)[entry]
    return algo if takes else "sha256"


def data_matches(rep_data, expect):
    """Compare an opserver data reply with expected bytes."""
    return rep_data.get("len") == len(expect) and rep_data.get("sha256") == ref.sha256hex(expect)


def read_entry_points(flavour):
    """(name, side, kind) of every checked whole/streamed read of the flavour."""
    out = [("read_sync", "s", "key"), ("read_hash_sync", "s", "sri"), ("stream_sync", "s", "key"), ("stream_hash_sync", "s", "sri")]
    if is_async(flavour):
        out += [("read", "a", "key"), ("read_hash", "a", "sri"), ("stream", "a", "key"), ("stream_hash", "a", "sri")]
    return out


def do_read(srv, cache, name, key=None, sri=None, buf=1024):
    """Returns (reply, data_reply|None): data_reply is present when bytes were delivered successfully."""
    if name in ("read_sync", "read"):
        rep = srv.call({"op": name, "cache": cache, "key": key})
        return rep, rep.get("ok")
    if name in ("read_hash_sync", "read_hash"):
        rep = srv.call({"op": name, "cache": cache, "sri": sri})
        return rep, rep.get("ok")
    pre = "sr_" if name.endswith("_sync") else "ar_"
    if "hash" in name:
        rep = srv.call({"op": pre + "open_hash", "cache": cache, "sri": sri})
    else:
        rep = srv.call({"op": pre + "open", "cache": cache, "key": key})
    if "ok" not in rep:
        return rep, None
    rep = srv.call({"op": "r_stream", "h": rep["ok"]["h"], "n": buf})
    if "ok" in rep:
        return rep, rep["ok"]["data"]
    return rep, None
