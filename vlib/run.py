"""Shared plumbing: worker contexts, parallel job execution, findings, replays, evidence, exit codes."""
import atexit
import fnmatch
import hashlib
import json
import multiprocessing as mp
import os
import shutil
import sys
import time
import traceback

from . import fsutil, ops, ref

VERIF = ops.VERIF
OUT = os.environ.get("VERIF_OUT", VERIF)   # evidence/replays of scratch-copy runs (seed matrix) go elsewhere
NPROC = int(os.environ.get("VERIF_JOBS", "16"))
# scratch caches: tmpfs by default; VERIF_SCRATCH=<dir> moves them (e.g. /verif/.scratch for an ext4 pass)
SHM = os.environ.get("VERIF_SCRATCH") or ("/dev/shm" if os.path.isdir("/dev/shm") else os.path.join(VERIF, ".scratch"))
os.makedirs(SHM, exist_ok=True)

_base = None


def base_dir():
    global _base
    if _base is None:
        _base = os.path.join(SHM, "verif-%d" % os.getpid())
        os.makedirs(_base, exist_ok=True)
        atexit.register(_cleanup, _base, os.getpid())
    return _base


def _cleanup(path, pid):
    if os.getpid() == pid:
        fsutil.wipe(path)


class Ctx:
    """Per-worker context: scratch directory and lazily started opservers."""

    def __init__(self, base, wid, tier, seed, timeout):
        self.wid = wid
        self.tier = tier
        self.seed = seed
        self.timeout = timeout
        self.dir = os.path.join(base, "w%d" % wid)
        os.makedirs(self.dir, exist_ok=True)
        self._srv = {}
        self._xxh = {}
        self.n = 0

    def srv(self, flavour, slot=0):
        k = (flavour, slot)
        s = self._srv.get(k)
        if s is None:
            s = ops.OpServer(flavour, cwd=self.dir, timeout=self.timeout)
            self._srv[k] = s
        return s

    def fresh(self, name="c"):
        """A fresh (absent) path inside the worker's scratch directory."""
        self.n += 1
        p = os.path.join(self.dir, "%s%d" % (name, self.n))
        fsutil.wipe(p)
        return p

    def path(self, name):
        return os.path.join(self.dir, name)

    def xxh3(self, data):
        k = hashlib.blake2b(data, digest_size=16).digest()
        v = self._xxh.get(k)
        if v is None:
            r = self.srv("sync", slot=9)("xxh3_ref", data={"hex": data.hex()})
            v = r["ok"]
            self._xxh[k] = v
        return v

    def sri(self, algo, data):
        return ref.sri(algo, data, self.xxh3)

    def close(self):
        for s in self._srv.values():
            s.close()
        self._srv = {}


_ctx = None
_fn = None


def _init(base, counter, tier, seed, timeout, fn):
    global _ctx, _fn
    with counter.get_lock():
        wid = counter.value
        counter.value += 1
    _ctx = Ctx(base, wid, tier, seed, timeout)
    _fn = fn
    atexit.register(_ctx.close)


def _work(job):
    t0 = time.time()
    try:
        r = _fn(_ctx, job)
    except Exception:
        r = {"machinery_error": traceback.format_exc()}
    r["_t"] = time.time() - t0
    if ops.API_COVER and _ctx is not None:
        # which entry points of the real library this job drove (merged into the evidence by finish())
        with open(os.path.join(os.path.dirname(_ctx.dir), "apicover.%d" % os.getpid()), "a") as fh:
            fh.write("\n".join(sorted(ops.API_COVER)) + "\n")
        ops.API_COVER.clear()
    return r


class V:
    """Helpers to build result dicts in workers."""

    @staticmethod
    def new():
        return {"evals": 0, "distinct": set(), "outcomes": {}, "violations": [], "samples": [], "states": 0,
                "transitions": 0, "extra": {}}

    @staticmethod
    def h(*parts):
        return hashlib.blake2b(repr(parts).encode(), digest_size=8).hexdigest()

    @staticmethod
    def outcome(res, name, n=1):
        res["outcomes"][name] = res["outcomes"].get(name, 0) + n

    @staticmethod
    def violation(res, sig, what, replay):
        if len(res["violations"]) < 50:
            res["violations"].append({"sig": sig, "what": what, "replay": replay})
        else:
            res["extra"]["violations_dropped"] = res["extra"].get("violations_dropped", 0) + 1


def load_findings():
    path = os.path.join(VERIF, "known_findings.jsonl")
    out = []
    if os.path.exists(path):
        for line in open(path):
            line = line.strip()
            if line and not line.startswith("#"):
                out.append(json.loads(line))
    return out


def classify(rep):
    """Short classification of an opserver reply."""
    if "ok" in rep:
        return "Ok"
    if "err" in rep:
        e = rep["err"]
        v = e.get("variant", "?")
        if v in ("IoError", "StdIo"):
            return "%s(%s)" % (v, e.get("io_kind"))
        return v
    if "panic" in rep:
        return "Panic"
    if "hang" in rep:
        return "Hang"
    if "died" in rep:
        return "Died(%s)" % rep["died"]
    return "?"


def is_total(rep):
    """C20: did the call return a value (no panic, no hang, no death, no background panic)?"""
    return ("ok" in rep or "err" in rep) and not rep.get("panics")


def run_check(prop, tier, jobs, fn, *, level, rule, technique, assumptions=(), timeout=10.0, seed=0,
              budget_s=None, exhaustive=True, explanation=None, extra_cov=None, serial=False):
    """Run fn(ctx, job) over all jobs in parallel; aggregate; triage against known findings; write
    evidence and replays; return the exit code."""
    t0 = time.time()
    base = base_dir()
    counter = mp.Value("i", 0)
    agg = V.new()
    agg["distinct"] = set()
    merr = []
    capped = False
    done = 0
    njobs = len(jobs)
    if serial or njobs <= 1:
        _init(base, counter, tier, seed, timeout, fn)
        it = map(_work, jobs)
        pool = None
    else:
        pool = mp.Pool(min(NPROC, njobs), initializer=_init, initargs=(base, counter, tier, seed, timeout, fn))
        it = pool.imap_unordered(_work, jobs, chunksize=1)
    try:
        for r in it:
            done += 1
            if "machinery_error" in r:
                merr.append(r["machinery_error"])
                continue
            agg["evals"] += r.get("evals", 0)
            agg["states"] += r.get("states", 0)
            agg["transitions"] += r.get("transitions", 0)
            agg["distinct"] |= set(r.get("distinct", ()))
            for k, v in r.get("outcomes", {}).items():
                agg["outcomes"][k] = agg["outcomes"].get(k, 0) + v
            agg["violations"].extend(r.get("violations", ()))
            if len(agg["samples"]) < 6:
                agg["samples"].extend(r.get("samples", ())[:2])
            for k, v in r.get("extra", {}).items():
                if isinstance(v, (int, float)):
                    agg["extra"][k] = agg["extra"].get(k, 0) + v
                elif isinstance(v, (set, list, tuple)):
                    agg["extra"][k] = sorted(set(agg["extra"].get(k, [])) | set(v))
                else:
                    agg["extra"][k] = v
            if budget_s and time.time() - t0 > budget_s and done < njobs:
                capped = True
                break
    finally:
        if pool is not None:
            pool.terminate()
            pool.join()
        elif _ctx is not None:
            _ctx.close()
    wall = time.time() - t0
    return finish(prop, tier, agg, merr, wall, level=level, rule=rule, technique=technique, assumptions=assumptions,
                  seed=seed, capped=capped, jobs_done=done, jobs_total=njobs, exhaustive=exhaustive and not capped,
                  explanation=explanation, extra_cov=extra_cov)


def finish(prop, tier, agg, merr, wall, *, level, rule, technique, assumptions, seed, capped, jobs_done, jobs_total,
           exhaustive, explanation=None, extra_cov=None):
    findings = load_findings()
    known = [f for f in findings if f.get("state") == "known" and f.get("property") == prop]
    by_sig = {}
    for v in agg["violations"]:
        by_sig.setdefault(v["sig"], v)
        by_sig[v["sig"]]["count"] = by_sig[v["sig"]].get("count", 0) + 1
    new = []
    known_hit = {}
    for sig, v in sorted(by_sig.items()):
        hit = None
        for f in known:
            if fnmatch.fnmatchcase(sig, f["signature"]):
                hit = f
                break
        if hit is not None:
            known_hit.setdefault(hit["signature"], (hit, []))[1].append(sig)
        else:
            new.append(v)
    for sigpat, (f, sigs) in sorted(known_hit.items()):
        print("KNOWN-FINDING: property=%s %s [%s; %d matching case(s)]" % (prop, f.get("what", ""), sigpat, len(sigs)))
    only = os.environ.get("VERIF_ONLY_SIG")
    if only is not None:
        # replay mode: the enumeration is deterministic, so re-running it revisits the recorded case; report only that one
        new = [v for v in new if v["sig"] == only]
    rdir = os.path.join(OUT, "replays", prop)
    maxv = int(os.environ.get("VERIF_MAXV", "25"))
    for v in new[:maxv]:
        os.makedirs(rdir, exist_ok=True)
        name = hashlib.blake2b(v["sig"].encode(), digest_size=6).hexdigest() + ".json"
        path = os.path.join(rdir, name)
        with open(path, "w") as fh:
            json.dump({"property": prop, "tier": tier, "signature": v["sig"], "what": v["what"], "replay": v["replay"]}, fh, indent=1,
                      default=_default)
        print("VIOLATION property=%s replay=%s" % (prop, path))
        print("  signature: %s" % v["sig"])
        print("  what: %s" % v["what"][:600])
    if len(new) > maxv:
        print("  (%d further distinct violation signatures not written)" % (len(new) - maxv))
    for m in merr[:3]:
        print("MACHINERY-ERROR: %s" % m, file=sys.stderr)
    cov = {
        "evaluations": agg["evals"],
        "distinct_nontrivial": len(agg["distinct"]),
        "rule": rule,
        "samples": agg["samples"][:6] or ["(none)"],
        "exhaustive": bool(exhaustive),
        "outcomes": agg["outcomes"],
        "distinct_outcomes": len(agg["outcomes"]),
        "jobs_done": jobs_done,
        "jobs_total": jobs_total,
        "capped": bool(capped),
        "technique": technique,
        "known_findings_hit": sorted(known_hit),
    }
    if agg["states"] or agg["transitions"]:
        cov["states"] = agg["states"]
        cov["transitions"] = agg["transitions"]
    cov["traces_validated_against_impl"] = agg["evals"]
    if explanation:
        cov["explanation"] = explanation
    cov.update(agg["extra"])
    api = set(ops.API_COVER)
    if _base is not None and os.path.isdir(_base):
        for fn_ in os.listdir(_base):
            if fn_.startswith("apicover."):
                with open(os.path.join(_base, fn_)) as fh:
                    api |= set(l.strip() for l in fh if l.strip())
                os.unlink(os.path.join(_base, fn_))
    if api:
        per = {}
        for a in api:
            fl, _, op = a.partition(":")
            per.setdefault(op, []).append(fl)
        cov["api_calls_exercised"] = {op: "".join(sorted(f[0] for f in fls)) for op, fls in sorted(per.items())}
    if extra_cov:
        cov.update(extra_cov)
    ev = {
        "property_id": prop,
        "tier": tier,
        "seed": int(seed),
        "level": level,
        "coverage": cov,
        "assumptions": list(assumptions),
        "wall_s": round(wall, 2),
        "violations": len(new),
    }
    os.makedirs(os.path.join(OUT, "evidence"), exist_ok=True)
    with open(os.path.join(OUT, "evidence", prop + ".json"), "w") as fh:
        json.dump(ev, fh, indent=1, default=_default)
    print("%s %s: evaluations=%d distinct=%d states=%d transitions=%d outcomes=%d violations=%d known=%d wall=%.1fs%s" % (
        prop, tier, agg["evals"], len(agg["distinct"]), agg["states"], agg["transitions"], len(agg["outcomes"]), len(new),
        len(known_hit), wall, " CAPPED" if capped else ""))
    if merr:
        return 2
    if new:
        return 1
    if agg["evals"] == 0:
        print("MACHINERY-ERROR: nothing was evaluated", file=sys.stderr)
        return 2
    return 0


def _default(o):
    if isinstance(o, (bytes, bytearray)):
        return {"hex": bytes(o).hex()} if len(o) <= 512 else {"len": len(o), "sha256": hashlib.sha256(o).hexdigest()}
    if isinstance(o, set):
        return sorted(o)
    try:
        from decimal import Decimal
        if isinstance(o, Decimal):
            return str(o)
    except Exception:
        pass
    return repr(o)
