"""Finite input tables shared by all checks (DESIGN 3.1)."""
import hashlib
import itertools

from .ref import MIB, ALGOS

SIZES_ALL = [0, 1, 2, 5, 1023, 1024, 1025, 8191, 8192, 8193, 16383, 16384, 16385, MIB - 1, MIB, MIB + 1, 2 * MIB + 1,
             3 * MIB + 17]
SIZES_SMALL = [0, 1, 2, 5, 1025, 8193]
SIZES_QUICK = [0, 1, 2, 5, 1025, 8193, 16385, MIB - 1, MIB, MIB + 1]


def compositions(n):
    """All 2^(n-1) ordered ways of writing n as a sum of positive chunks."""
    if n == 0:
        return [[]]
    out = []
    for bits in range(1 << (n - 1)):
        cur = 1
        parts = []
        for i in range(n - 1):
            if bits >> i & 1:
                parts.append(cur)
                cur = 1
            else:
                cur += 1
        parts.append(cur)
        out.append(parts)
    return out


def chunkings(n, full=True):
    """Chunk-length lists for n data bytes. Small n: every composition, plus empty chunks inserted
    first / middle / last. Larger n: the structured family."""
    out = []

    def add(c):
        c = [int(x) for x in c]
        assert sum(c) == n and all(x >= 0 for x in c), (n, c)
        if c not in out:
            out.append(c)

    if n == 0:
        add([])
        add([0])
        add([0, 0])
        return out
    if n <= 6:
        for c in compositions(n):
            add(c)
        base = compositions(n)[-1] if n > 1 else [n]
        for c in ([n], base):
            add([0] + c)
            add(c + [0])
            if len(c) > 1:
                add(c[:1] + [0] + c[1:])
        return out
    add([n])
    add([1, n - 1])
    add([n - 1, 1])
    add([n // 2, n - n // 2])
    # geometric decreasing: n/2, n/4, ... then the rest
    dec = []
    left = n
    x = n // 2
    while x >= 1 and left - x > 0 and len(dec) < 12:
        dec.append(x)
        left -= x
        x //= 2
    dec.append(left)
    add(dec)
    add(list(reversed(dec)))
    if full:
        k = 4096
        if n > k:
            c = [k] * (n // k)
            if n % k:
                c.append(n % k)
            add(c)
        if n <= 64:
            add([1] * n)
        add([0, n])
        add([n, 0])
        add([n // 3, 0, n - n // 3])
    return out


KEYS_HOSTILE = [
    "", "a", "key", "Key", "KEY", "a/b", "../x", "../../../../tmp/pwn", "/abs/path", "a\\b", "nul\x00byte", "tab\there",
    "nl\nhere", "cr\rhere", "q\"uote", "back\\slash", "\x01\x1f\x7f", "é", "é", "ß", "ss", "Ω", "Ω",
    "\U0001F600", ".", "..", " lead", "trail ", "x" * 4096, "y" * 70000, "index-v5", "content-v2/sha256/aa", "tmp",
]

CONFUSABLE_PAIRS = [("key", "Key"), ("Key", "KEY"), ("é", "é"), ("ß", "ss"), ("Ω", "Ω"),
                    ("a/b", "a\\b"), (".", ".."), (" lead", "lead"), ("trail ", "trail"), ("", " "),
                    ("nul\x00byte", "nul"), ("a", "a\x00")]


def sha1hex(s):
    return hashlib.sha1(s.encode("utf-8")).hexdigest()


_coll = {}


def sibling_keys(prefix_hex_len=4, base="k", count=2):
    """Keys whose SHA-1 share the first prefix_hex_len hex digits (same index-v5/aa/bb directory for 4,
    same index-v5/aa for 2). Found by search, deterministic."""
    k = (prefix_hex_len, base, count)
    if k in _coll:
        return _coll[k]
    seen = {}
    i = 0
    while True:
        key = "%s%d" % (base, i)
        p = sha1hex(key)[:prefix_hex_len]
        seen.setdefault(p, []).append(key)
        if len(seen[p]) == count:
            _coll[k] = seen[p]
            return seen[p]
        i += 1


def sibling_data(algo_fn, prefix_hex_len=4, count=2, size=3):
    """Byte strings whose digests share a content-v2/<algo>/aa/bb directory."""
    seen = {}
    i = 0
    while True:
        d = i.to_bytes(size, "big")
        p = algo_fn(d)[:prefix_hex_len]
        seen.setdefault(p, []).append(d)
        if len(seen[p]) == count:
            return seen[p]
        i += 1


JSON_ATOMS = [None, True, False, 0, -1, 2 ** 53 + 1, 2 ** 63 - 1, -2 ** 63, 2 ** 64 - 1, 0.5, -3.75, 1250.25, "", "a",
              "tab\t", "nl\n", "q\"", "\\", "\u0001", "é", "\U0001F600"]


def json_values(full=True):
    """Every JSON value of depth <= 2 over the atoms with arrays/objects of <= 2 members (reduced
    when not full)."""
    atoms = JSON_ATOMS
    vals = list(atoms)
    vals.append([])
    vals.append({})
    for a in atoms:
        vals.append([a])
        vals.append({"k": a})
    pair_atoms = atoms if full else atoms[::3]
    for a, b in itertools.product(pair_atoms, repeat=2):
        vals.append([a, b])
        if full:
            vals.append({"k": a, "": b})
    # depth 2
    inner = [[], {}, [None], {"a": 1}, [1, "x"], {"a": 0.5, "b": [True]}]
    for i in inner:
        vals.append([i])
        vals.append({"o": i})
        vals.append([i, i])
    vals.append({"tab\t": "nl\n", "é": "\U0001F600"})
    vals.append({"key": "x", "integrity": None})
    # records far longer than any buffer or window a reader might use (one index record = one line)
    vals.append({"blob": "q" * 20000, "after": [1, 2, 3]})
    vals.append(["é" * 9000, {"deep": ["x" * 40000]}])
    return vals


TIMES = [0, 1, 999, 10 ** 12, 2 ** 53 - 1, 2 ** 53, 2 ** 53 + 1, 2 ** 63 - 1, 2 ** 63, 2 ** 63 + 1, 2 ** 64 - 1, 2 ** 64,
         2 ** 64 + 1, 2 ** 127, 2 ** 128 - 1]

RAW_METAS = [b"", b"\x00", b"\xff", bytes(range(256)), b"\xff" * 4096, bytes(range(256)) * 100]


def key_family():
    """(a, b, c): a,b share index-v5/aa/bb; c shares only index-v5/aa with them."""
    if "fam" in _coll:
        return _coll["fam"]
    a, b = sibling_keys(4, "k", 2)
    ha = sha1hex(a)
    i = 0
    while True:
        c = "c%d" % i
        hc = sha1hex(c)
        if hc[:2] == ha[:2] and hc[2:4] != ha[2:4]:
            break
        i += 1
    _coll["fam"] = (a, b, c)
    return _coll["fam"]


def sibling_gen_values(algo="sha256", prefix_hex_len=4):
    """Two (n, tag) data descriptors whose digests share content-v2/<algo>/aa/bb."""
    import hashlib as _h
    from .ref import gen
    k = ("gv", algo, prefix_hex_len)
    if k in _coll:
        return _coll[k]
    seen = {}
    for n in range(1, 64):
        for tag in range(256):
            hx = _h.new(algo, gen(n, tag)).hexdigest()[:prefix_hex_len]
            if hx in seen and seen[hx][0] != n:
                _coll[k] = (seen[hx], (n, tag))
                return _coll[k]
            seen.setdefault(hx, (n, tag))
    raise RuntimeError("no sibling values found")


# Integrity strings at the edges of "can name a content file": a known algorithm and ONE digest whose text is canonical,
# padded, standard-alphabet base64 of at least the 3 bytes the content path is split into (hex 2/2/rest). Whether each is
# usable is decided by the reference (ref.usable_sri), never listed here.
SRI_EDGE = [
    "sha1-AAAA", "sha1-AAA=", "sha1-AA==", "sha1-AAAAAA==", "sha1-AAAAAAA=", "sha1-AAAAAAAA", "sha1-++++", "sha1-////", "sha1-+/+/", "sha1-0000", "sha1-9999", "sha1-5678",
    "sha1-zzzz", "sha1-azAZ", "sha1-AAAAAB==", "sha1-AAAAAQ==", "sha1-AAAAAP==", "sha1-AAAAAAE=", "sha1-AAAAAAB=", "sha1-AAAAAAC=", "sha1-AAAAAAD=", "sha1-A===", "sha1-AAAAA",
    "sha1-AAAAAA", "sha1-AAAAAAA", "sha1-AAA_", "sha1-AAA-", "sha1-AA A", "sha1-", "sha256-/+8=", "sha256-/+8A", "sha512-++8=", "sha384-9w==", "sha256-9999AA==", "sha256-0000AAA=",
    "xxh3-AAAA", "xxh3-AAA=", "sha1-2jmj7l5rSw0yVb/vlWAYkK/YBwk=", "sha1-2jmj7l5rSw0yVb/vlWAYkK/YBwl=", "sha1-====", "sha1-AAAA====", "sha1-=AAA", "sha1-AA=A",
    "sha1-AAAAA===", "sha1-AAAAAAAAA===", "sha1-AAAAAA/=", "sha1-AAAAA/==", "sha1-AAAAAA+=", "sha1-AAAAA+==", "sha1-AAAAAA9=", "sha1-AAAAAA0=", "sha1-AAAAA0==", "sha1-AAAAAAz=",
    "sha1-AAAAAAw=", "sha1-AAAAAg==", "sha1-AAAAAw==", "sha1-AAAAAA8=", "sha1-AAAAAA4=", "sha1-AAAAA9==",
    # several hashes: every one of them has to be usable (a reader may pick any of them)
    "sha512-AAAAAAAA sha256-AAAA", "sha512-AAAAAAAA sha256-A", "sha512-AAAAAAAA sha256-AA==", "sha256-AAAA sha1-AA==", "sha1-AAAA sha512-AA==", "sha512-AAAA sha512-AA==",
    "sha512-AA== sha512-AAAA", "sha256-AAAA sha256-AAAAAAAA", "sha1-AAAA sha1-AAA=", "sha512-AAAAAAAA sha1-AAAAAB==",
]
