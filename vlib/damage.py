"""Damage patterns on a content file (C01, C18, C12, C20)."""
import os

from . import fsutil


def offsets(n):
    offs = {0, 1, n // 2, n - 1}
    for b in (1024, 8192, 16384, 1 << 20):
        for d in (-1, 0, 1):
            offs.add(b + d)
    return sorted(o for o in offs if 0 <= o < n)


def damages(data, other, exhaustive_limit=64, aux_dir=None):
    for d in _damages(data, other, exhaustive_limit, aux_dir):
        if d[2] == "bytes" and d[3] == data:
            continue  # not a damage (e.g. patterns that degenerate for empty data)
        yield d


def _damages(data, other, exhaustive_limit=64, aux_dir=None):
    """Yields (name, klass, kind, payload). kind 'bytes': payload replaces the file's bytes;
    'symlink': payload is the link target; 'dir': the path becomes a directory; 'missing'."""
    n = len(data)
    if n <= exhaustive_limit:
        flip_offs = range(n)
        bits = range(8)
        cuts = range(n)
    else:
        flip_offs = offsets(n)
        bits = (0, 7)
        cuts = sorted(set(offsets(n)) | {n - 1})
    for o in flip_offs:
        for b in bits:
            d = bytearray(data)
            d[o] ^= 1 << b
            yield ("flip@%d.%d" % (o, b), "bitflip", "bytes", bytes(d))
    for c in cuts:
        if c < n:
            yield ("cut@%d" % c, "truncate", "bytes", data[:c])
    yield ("extend+1", "extend", "bytes", data + b"\x00")
    yield ("extend+buf", "extend", "bytes", data + (data[:1] or b"x") * 8192)
    if n > 0:
        yield ("empty", "truncate", "bytes", b"")
        yield ("doubled", "extend", "bytes", data + data)
    if other is not None and other != data:
        yield ("other-entry", "swap", "bytes", other)
    if n > 2:
        d = bytearray(data)
        d[0], d[-1] = d[-1], d[0]
        if bytes(d) != data:
            yield ("swap-ends", "multibyte", "bytes", bytes(d))
        yield ("zeroed", "multibyte", "bytes", b"\x00" * n)
    if aux_dir is not None:
        yield ("symlink-to-different", "symlink", "symlink", ("different", (other if other not in (None, data) else data + b"x")))
        yield ("symlink-to-identical", "symlink-identical", "symlink", ("identical", data))
        yield ("symlink-dangling", "symlink", "symlink", ("dangling", None))
        yield ("directory", "directory", "dir", None)


def apply(path, kind, payload, aux_dir):
    """Put the damage in place at path (the pristine file is expected to exist or not; it is replaced)."""
    fsutil.wipe(path)
    if kind == "bytes":
        with open(path, "wb") as fh:
            fh.write(payload)
    elif kind == "symlink":
        which, content = payload
        tgt = os.path.join(aux_dir, "link-target-" + which)
        fsutil.wipe(tgt)
        if content is not None:
            with open(tgt, "wb") as fh:
                fh.write(content)
        os.symlink(tgt, path)
    elif kind == "dir":
        os.mkdir(path)
    elif kind == "missing":
        pass


def read_dest(path):
    """Bytes reachable at a destination path (following symlinks), or None."""
    try:
        with open(path, "rb") as fh:
            return fh.read()
    except OSError:
        return None
